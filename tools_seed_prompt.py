import sys
pid, wt, focus = sys.argv[1], sys.argv[2], sys.argv[3] if len(sys.argv)>3 else ""
prop = open('/tmp/prop_%s.txt'%pid).read()
print(f"""You are helping test a verification effort for the Go library nhooyr.io/websocket (a pinned commit). You have your own scratch git worktree of it at {wt} (work ONLY inside that directory; never touch /repo or /verif, and do not read anything under /verif).

Here is a semantic property the library is supposed to satisfy:

---
{prop}---
{focus}
Your task: produce ONE small, realistic change to the library's non-test Go source (the kind of slip a maintainer could make in a refactor or an "optimisation") that BREAKS this property while
  (a) the package still compiles,
  (b) the existing test suite still passes: run `cd {wt} && export GOFLAGS=-mod=mod GOPROXY=off GOSUMDB=off GOTOOLCHAIN=local && go test -vet=off -count=1 -timeout 10m . ./internal/... ./wsjson/...` (run it twice to make sure it is not flaky with your change; there is no network, do not try to fetch anything),
  (c) the breakage needs something specific to manifest: an unusual input, a particular multi-step sequence of operations, a fault/EOF at a particular point, a particular interleaving, or two cooperating sites that each look fine alone - NOT something ordinary use would expose at once.

Also write a demonstration: a Go test file at {wt}/zz_seed_demo_test.go in package websocket (internal test, same package as the library; or package wsjson_test placed in {wt}/wsjson/ if the property is about wsjson) with a single test function named TestSeedDemo that FAILS with your change applied and PASSES on the unmodified code. It must be deterministic (or very nearly), finish in under 60 s, and use only the standard library plus what is in the repository (net.Pipe, httptest, the package's own unexported helpers are all fine). Verify both directions yourself: `git stash` (or `git diff > /tmp/x.diff && git checkout -- .`) to run the demo on the unmodified code, then re-apply.

Do not edit existing test files, do not add build tags, do not touch go.mod. Do not edit or create any file named contracts_verif.go. Keep the change minimal (a few lines, one or two sites).

When done, leave the worktree with the change applied (uncommitted) and the demo file present (untracked), and reply with: (1) the output of `git -C {wt} diff`, (2) a two-or-three sentence description of what it breaks and exactly what is needed for it to manifest, (3) the commands you ran and their results (suite with change; demo with change; demo without change).""")
