package websocket

// Demonstration for property C11 (kept under /verif/findings; run with go test -overlay):
// Accept validates the Sec-WebSocket-Key with surrounding white space removed ("The RFC states
// to remove any leading or trailing whitespace") but on the pinned tree computes
// Sec-WebSocket-Accept over the untrimmed header value, so a request whose key reaches the
// handler with padding (a hand-built request, a non-net/http front end) is upgraded with an
// accept value that does not belong to the key that was validated.

import (
	"bufio"
	"crypto/sha1"
	"encoding/base64"
	"net"
	"net/http"
	"net/http/httptest"
	"testing"
)

type c11Hijacker struct {
	http.ResponseWriter
	c net.Conn
}

func (h c11Hijacker) Hijack() (net.Conn, *bufio.ReadWriter, error) {
	return h.c, bufio.NewReadWriter(bufio.NewReader(h.c), bufio.NewWriter(h.c)), nil
}

func TestC11Demo(t *testing.T) {
	const key = "dGhlIHNhbXBsZSBub25jZQ=="
	server, client := net.Pipe()
	defer client.Close()
	rec := httptest.NewRecorder()
	r := httptest.NewRequest("GET", "/", nil)
	r.Header.Set("Connection", "Upgrade")
	r.Header.Set("Upgrade", "websocket")
	r.Header.Set("Sec-WebSocket-Version", "13")
	r.Header["Sec-Websocket-Key"] = []string{" " + key + " "}
	c, err := Accept(c11Hijacker{rec, server}, r, nil)
	if err != nil {
		t.Skipf("request not accepted: %v", err)
	}
	defer c.CloseNow()
	sum := sha1.Sum([]byte(key + "258EAFA5-E914-47DA-95CA-C5AB0DC85B11"))
	want := base64.StdEncoding.EncodeToString(sum[:])
	if got := rec.Header().Get("Sec-WebSocket-Accept"); got != want {
		t.Fatalf("Sec-WebSocket-Accept = %q, want %q (RFC 6455 4.2.2 over the validated key)", got, want)
	}
}
