package websocket

// Demonstration for property C16 (kept under /verif/findings; run with
//   go test -overlay <json mapping /repo/zz_c16_test.go to this file> -run TestC16Demo .
// ): a server-role connection sends a Close frame (local Close), the raw peer echoes it, and
// on the pinned tree the library answers the echo with a SECOND Close frame; a concurrent
// writer can also emit data frames after the first Close frame. With the fix neither happens.

import (
	"bufio"
	"context"
	"io"
	"net"
	"testing"
	"time"
)

func TestC16Demo(t *testing.T) {
	a, b := net.Pipe()
	c := newConn(connConfig{rwc: a, client: false, br: bufio.NewReader(a), bw: bufio.NewWriterSize(a, 4096)})
	type frame struct {
		op byte
		n  int
	}
	frames := make(chan frame, 16)
	go func() {
		defer close(frames)
		br := bufio.NewReader(b)
		for {
			var h [2]byte
			if _, err := io.ReadFull(br, h[:]); err != nil {
				return
			}
			n := int(h[1] & 0x7f)
			p := make([]byte, n)
			if _, err := io.ReadFull(br, p); err != nil {
				return
			}
			frames <- frame{h[0] & 0x0f, n}
			if h[0]&0x0f == 8 && len(frames) == 1 {
				// first Close seen: wait a little (a writer may still be active), then echo (masked, key 0)
				time.Sleep(50 * time.Millisecond)
				b.Write(append([]byte{0x88, 0x80 | byte(n), 0, 0, 0, 0}, p...))
			}
		}
	}()
	done := make(chan struct{})
	go func() {
		defer close(done)
		c.Close(StatusNormalClosure, "bye")
	}()
	// a writer that keeps going after Close was called
	time.Sleep(10 * time.Millisecond)
	ctx, cancel := context.WithTimeout(context.Background(), time.Second)
	defer cancel()
	c.Write(ctx, MessageText, []byte("late"))
	<-done
	b.Close()
	var seen []frame
	for f := range frames {
		seen = append(seen, f)
	}
	closes, after := 0, 0
	for _, f := range seen {
		if f.op == 8 {
			closes++
		} else if closes > 0 && f.op <= 2 {
			after++
		}
	}
	t.Logf("frames seen by the raw peer: %+v", seen)
	if closes > 1 {
		t.Errorf("%d Close frames were sent", closes)
	}
	if after > 0 {
		t.Errorf("%d data frames followed the Close frame", after)
	}
}
