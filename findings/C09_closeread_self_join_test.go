package websocket

import (
	"context"
	"net"
	"testing"
	"time"
)

// C09: "The context returned by CloseRead is cancelled promptly after the connection closes,
// including when CloseRead itself closes it because a data message arrived."
func TestCloseReadDataMessagePrompt(t *testing.T) {
	p1, p2 := net.Pipe()
	srv := newConn(connConfig{rwc: p1, client: false, br: getBufioReader(p1), bw: getBufioWriter(p1)})
	cli := newConn(connConfig{rwc: p2, client: true, br: getBufioReader(p2), bw: getBufioWriter(p2)})
	defer cli.CloseNow()
	ctx := srv.CloseRead(context.Background())
	go func() {
		// the peer reads (and answers) whatever the server sends, including its Close frame
		for {
			if _, _, err := cli.Read(context.Background()); err != nil {
				return
			}
		}
	}()
	if err := cli.Write(context.Background(), MessageText, []byte("unexpected")); err != nil {
		t.Fatal(err)
	}
	start := time.Now()
	select {
	case <-ctx.Done():
		d := time.Since(start)
		t.Logf("CloseRead context cancelled after %v", d)
		if d > 3*time.Second {
			t.Fatalf("CloseRead context cancelled only after %v (the reader goroutine waited for itself)", d)
		}
	case <-time.After(25 * time.Second):
		t.Fatal("CloseRead context not cancelled within 25 s")
	}
}
