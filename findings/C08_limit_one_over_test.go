package websocket

import (
	"context"
	"io"
	"net"
	"testing"
	"time"
)

// C08: "a message exceeding [the read limit] is never reported complete: its read fails after
// at most limit+1 bytes have been handed to the caller and a Close frame with status 1009 is sent".
func TestReadLimitExactlyOneOver(t *testing.T) {
	for _, tc := range []struct {
		name  string
		frame []byte
	}{
		// "Hello" (5 bytes) as one compressed text frame whose DEFLATE block is final (BFINAL=1)
		{"bfinal1", []byte{0xc1, 0x07, 0xf3, 0x48, 0xcd, 0xc9, 0xc9, 0x07, 0x00}},
		// the same message with BFINAL=0 (what most senders emit)
		{"bfinal0", []byte{0xc1, 0x07, 0xf2, 0x48, 0xcd, 0xc9, 0xc9, 0x07, 0x00}},
	} {
		t.Run(tc.name, func(t *testing.T) {
			p1, p2 := net.Pipe()
			defer p2.Close()
			c := newConn(connConfig{rwc: p1, client: true, copts: CompressionNoContextTakeover.opts(), flateThreshold: 64, br: getBufioReader(p1), bw: getBufioWriter(p1)})
			defer c.CloseNow()
			c.SetReadLimit(4)
			wire := make(chan []byte, 1)
			go func() {
				p2.Write(tc.frame)
				buf := make([]byte, 64)
				p2.SetReadDeadline(time.Now().Add(2 * time.Second))
				n, _ := p2.Read(buf)
				wire <- buf[:n]
			}()
			ctx, cancel := context.WithTimeout(context.Background(), 5*time.Second)
			defer cancel()
			_, r, err := c.Reader(ctx)
			if err != nil {
				t.Fatal(err)
			}
			b, err := io.ReadAll(r)
			w := <-wire
			t.Logf("read %q err=%v; peer saw % x", b, err, w)
			if err == nil {
				t.Fatalf("a 5 byte message was reported complete (%q) with a read limit of 4", b)
			}
		})
	}
}
