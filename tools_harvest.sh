#!/bin/bash
# usage: tools_harvest.sh <seed-id> <worktree> : copies a sub-agent's change out of its scratch worktree into /verif/seeded/<seed-id>/
id=$1; wt=$2
sd=/verif/seeded/$id
mkdir -p $sd
git -C $wt diff > $sd/patch.diff
for f in $wt/zz_seed_demo_test.go $wt/wsjson/zz_seed_demo_test.go; do
  if [ -f $f ]; then
    case $f in */wsjson/*) cp $f $sd/demo_wsjson_test.go;; *) cp $f $sd/demo_test.go;; esac
  fi
done
ls -la $sd; wc -l $sd/patch.diff
