//go:build verif

package websocket

import "context"

// Pseudo-functions of the contract language. They have executable bodies so that
// contract clauses can also be compiled into replay tests; the verifier treats them
// as intrinsics.

func forall(lo, hi int, f func(i int) bool) bool {
	for i := lo; i < hi; i++ {
		if !f(i) {
			return false
		}
	}
	return true
}

func exists(lo, hi int, f func(i int) bool) bool {
	for i := lo; i < hi; i++ {
		if f(i) {
			return true
		}
	}
	return false
}

// old(e) is rewritten to oldEnd(oldBegin(), e'): the verifier evaluates e' in the
// pre-state; executable replays snapshot the pre-state themselves.
func oldBegin() int { return 0 }

func oldEnd[T any](_ int, x T) T { return x }

func gvcMod[T any](p *T)                    {}
func gvcModAll[T any](p *T)                 {}
func gvcModElems[T any](s []T)              {}
func gvcModMap[K comparable, V any](m map[K]V) {}

// gvcSameSlice: same backing array, offset, length and capacity.
func gvcSameSlice[T any](a, b []T) bool {
	return len(a) == len(b) && cap(a) == cap(b) && (cap(a) == 0 || &a[:cap(a)][0] == &b[:cap(b)][0])
}

// gvcSuffixOf: b is b0[len(b0)-len(b):] (same backing array, shifted offset).
func gvcSuffixOf[T any](b, b0 []T) bool {
	return len(b) <= len(b0) && (len(b) == 0 || &b[0] == &b0[len(b0)-len(b)])
}

func gvcModChan(ch any) {}

// Ghost channel state (see gvc/sym/chan.go): closed, "the buffered element is
// mine" (held mutex), and the last value this goroutine sent (armed context).
func gvcClosed(ch any) bool { panic("ghost") }
func gvcHeld(ch any) bool   { panic("ghost") }
func gvcArmed(ch chan context.Context) context.Context { panic("ghost") }

// gvcFresh(x): x was allocated during the call.
func gvcFresh(x any) bool { panic("ghost") }

// gvcRegion / gvcOff: identity of the backing array of a slice and the offset of its
// first element in it (ghost observers; executable approximations are not needed).
func gvcRegion[T any](s []T) int { panic("ghost") }
func gvcOff[T any](s []T) int    { panic("ghost") }

// gvcUnchangedOutside(b): every byte of b's backing array outside b[0:len(b)] has the
// value it had in the pre-state (old). Ghost.
func gvcUnchangedOutside(b []byte) bool { panic("ghost") }

// gvcFreshSlice(s): s is empty or its backing array was allocated during the call.
func gvcFreshSlice[T any](s []T) bool { panic("ghost") }

// gvcIsArmed(ch): the last context this goroutine sent on the timeout channel ch was
// not context.Background(), i.e. timeoutLoop will close the connection when that
// context ends (what bounds a blocked transport operation).
func gvcIsArmed(ch any) bool { panic("ghost") }

// gvcMapHas(m, k): k is present in map m.
func gvcMapHas[K comparable, V any](m map[K]V, k K) bool { _, ok := m[k]; return ok }

// specAt / specStrAt: element i of a slice/string, 0 outside (replay inputs only).
func specAt(b []byte, i int) byte {
	if i >= 0 && i < len(b) {
		return b[i]
	}
	return 0
}

func specStrAt(s string, i int) byte {
	if i >= 0 && i < len(s) {
		return s[i]
	}
	return 0
}

// gvcSameMap: a and b are the same map object (maps cannot be compared in Go).
func gvcSameMap[K comparable, V any](a, b map[K]V) bool { panic("ghost") }

// specB2U: 1 for true, 0 for false (replay inputs only).
func specB2U(b bool) int {
	if b {
		return 1
	}
	return 0
}

// Call-trace ghost (per path of the function under verification; see DESIGN.md 8.9):
// gvcCalls(f): how often the function under contract named f (the key used in "//@ func")
// has been called so far; gvcCallArg / gvcCallRes: argument i (receiver first) / result i of
// the last such call. Interface calls are recorded under the interface method's key,
// calls of a context.CancelFunc value under "context.CancelFunc" (argument 0 = the function value).
func gvcCalls(f string) int             { panic("ghost") }

// gvcCallSeq(f): position of the last call of f in the path's trace (0: none).
func gvcCallSeq(f string) int { panic("ghost") }
func gvcCallArg[T any](f string, i int) T { panic("ghost") }
func gvcCallRes[T any](f string, i int) T { panic("ghost") }

// gvcSameRef(a, b): a and b are the same reference (for function values and channels of
// different types, which Go source cannot compare).
func gvcSameRef(a, b any) bool { panic("ghost") }

// gvcCloser(ch): this goroutine is the one that closes ch (ghost; never changes). A goroutine
// must not wait for a channel that only it closes: see (*Conn).waitGoroutines [not-self-join].
func gvcCloser(ch any) bool { panic("ghost") }
