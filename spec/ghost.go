//go:build verif

package websocket

import "io"

// Ghost state of byte streams (never executed; the verifier treats the accessors as
// uninterpreted injective functions and the fields as ordinary heap fields).

// ghostStream: pos = number of bytes consumed from (reader) or accepted by (writer)
// the stream so far; out = the bytes accepted by a writer, in order.
type ghostStream struct {
	pos int
	out [1 << 30]byte
}

//gvc:ghost
func ghrd(r io.Reader) *ghostStream { panic("ghost") }

//gvc:ghost
func ghwr(w io.Writer) *ghostStream { panic("ghost") }

// rdin(r, k): the k-th byte the reader r delivers (a prophecy: the peer's bytes are
// arbitrary, so every property proved holds for every input stream).
//
//gvc:uninterpreted
func rdin(r io.Reader, k int) byte { panic("ghost") }
