//go:build verif

package websocket

import (
	"compress/flate"
	"io"

	"nhooyr.io/websocket/internal/xsync"
)

// Ghost state of byte streams (never executed; the verifier treats the accessors as
// uninterpreted injective functions and the fields as ordinary heap fields).

// ghostStream: pos = number of bytes consumed from (reader) or accepted by (writer)
// the stream so far; out = the bytes accepted by a writer, in order.
type ghostStream struct {
	pos int
	out [1 << 30]byte
	// bufio.Writer only: bytes currently buffered and the buffer size
	buffered int
	size     int
}

//gvc:ghost
func ghrd(r io.Reader) *ghostStream { panic("ghost") }

//gvc:ghost
func ghwr(w io.Writer) *ghostStream { panic("ghost") }

// rdin(r, k): the k-th byte the reader r delivers (a prophecy: the peer's bytes are
// arbitrary, so every property proved holds for every input stream).
//
//gvc:uninterpreted
func rdin(r io.Reader, k int) byte { panic("ghost") }

// errIs(e, t) = errors.Is(e, t) (observer of the verifier's error model).
func errIs(err, target error) bool { panic("ghost") }

// ghostConn: per-connection ghost state.
//   closeSent: a Close frame header has been written to the connection's writer.
type ghostConn struct {
	closeSent bool
}

//gvc:ghost
func gh(c *Conn) *ghostConn { panic("ghost") }

// errIsCE / errCECode / errCEReason: errors.As(err, *CloseError) and its fields.
func errIsCE(err error) bool         { panic("ghost") }
func errCECode(err error) StatusCode { panic("ghost") }
func errCEReason(err error) string   { panic("ghost") }

// ghconn(r): the connection a library-internal io.Reader (msgReader.readFunc, the
// flate reader stacked on it) reads from; what such a reader may modify is confined
// to that connection's state (assumption A-internal-readers).
//
//gvc:ghost
func ghconn(r io.Reader) *Conn { panic("ghost") }

// ghostI64: the value held by an xsync.Int64.
type ghostI64 struct{ val int64 }

//gvc:ghost
func ghi64(v *xsync.Int64) *ghostI64 { panic("ghost") }

// ghconnW(w): the connection a library-internal io.Writer (the trimLastFourBytesWriter
// in front of (*msgWriter).write) writes to. ghfw(fw).dst: the writer a flate.Writer was
// created / reset with.
//
//gvc:ghost
func ghconnW(w io.Writer) *Conn { panic("ghost") }

type ghostFW struct{ dst io.Writer }

//gvc:ghost
func ghfw(fw *flate.Writer) *ghostFW { panic("ghost") }
