//go:build verif

package websocket

// connInv: the representation invariant of a *Conn established by newConn and kept
// by every method (object graph, back pointers, distinct locks and channels).
func connInv(c *Conn) bool {
	if c == nil || c.readMu == nil || c.writeFrameMu == nil || c.msgReader == nil || c.msgWriter == nil {
		return false
	}
	mr, mw := c.msgReader, c.msgWriter
	if c.readMu.c != c || c.writeFrameMu.c != c || mr.c != c || mw.c != c {
		return false
	}
	if mr.limitReader == nil || mr.limitReader.c != c {
		return false
	}
	if mw.mu == nil || mw.writeMu == nil || mw.mu.c != c || mw.writeMu.c != c {
		return false
	}
	if c.readMu == c.writeFrameMu || c.readMu == mw.mu || c.readMu == mw.writeMu || c.writeFrameMu == mw.mu || c.writeFrameMu == mw.writeMu || mw.mu == mw.writeMu {
		return false
	}
	if !gvcDistinct7(c.closed, c.readMu.ch, c.writeFrameMu.ch, mw.mu.ch, mw.writeMu.ch, c.readTimeout, c.writeTimeout) {
		return false
	}
	if c.closed == nil || c.readMu.ch == nil || c.writeFrameMu.ch == nil || mw.mu.ch == nil || mw.writeMu.ch == nil || c.readTimeout == nil || c.writeTimeout == nil {
		return false
	}
	if c.br == nil || c.bw == nil || c.activePings == nil {
		return false
	}
	if mr.payloadLength < 0 {
		return false
	}
	if c.writeHeader.rsv2 || c.writeHeader.rsv3 {
		return false
	}
	if !c.client && c.writeHeader.masked {
		return false
	}
	if c.copts == nil && mw.flate {
		return false
	}
	return true
}

// gvcDistinct7: pairwise distinct references (channels of different element types
// cannot be compared in Go source).
func gvcDistinct7(a, b, c, d, e, f, g any) bool { panic("ghost") }

// RFC 7692 section 7.1.1: "client_no_context_takeover" constrains the compressor of
// the client, "server_no_context_takeover" that of the server. The receiver of a
// message therefore keeps a context iff the *peer's* (sender's) parameter is absent.
func specReceiverNoTakeover(isClient bool, o *compressionOptions) bool {
	if isClient {
		return o.serverNoContextTakeover // the peer (server) compresses
	}
	return o.clientNoContextTakeover
}

func specSenderNoTakeover(isClient bool, o *compressionOptions) bool {
	if isClient {
		return o.clientNoContextTakeover
	}
	return o.serverNoContextTakeover
}

// SetReadLimit documentation: "sets the max number of bytes to read for a single
// message ... Set to -1 to disable." The limit reader must hand out limit bytes and
// fail on the next one, so it is armed with limit+1 (one byte of look-ahead); a
// negative value disables the limit.
func specArmedLimit(n int64) int64 {
	if n >= 0 {
		return n + 1
	}
	return n
}

// The documented default read limit.
const specDefaultReadLimit = 32768
