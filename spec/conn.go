//go:build verif

package websocket

import (
	"bufio"
	"crypto/rand"
	"io"
)

// connInv: the representation invariant of a *Conn established by newConn and kept
// by every method (object graph, back pointers, distinct locks and channels).
func connInv(c *Conn) bool {
	if c == nil || c.readMu == nil || c.writeFrameMu == nil || c.msgReader == nil || c.msgWriter == nil {
		return false
	}
	mr, mw := c.msgReader, c.msgWriter
	if c.readMu.c != c || c.writeFrameMu.c != c || mr.c != c || mw.c != c {
		return false
	}
	if mr.limitReader == nil || mr.limitReader.c != c {
		return false
	}
	if mw.mu == nil || mw.writeMu == nil || mw.mu.c != c || mw.writeMu.c != c {
		return false
	}
	if c.readMu == c.writeFrameMu || c.readMu == mw.mu || c.readMu == mw.writeMu || c.writeFrameMu == mw.mu || c.writeFrameMu == mw.writeMu || mw.mu == mw.writeMu {
		return false
	}
	if !gvcDistinct7(c.closed, c.readMu.ch, c.writeFrameMu.ch, mw.mu.ch, mw.writeMu.ch, c.readTimeout, c.writeTimeout) {
		return false
	}
	if c.closed == nil || c.readMu.ch == nil || c.writeFrameMu.ch == nil || mw.mu.ch == nil || mw.writeMu.ch == nil || c.readTimeout == nil || c.writeTimeout == nil {
		return false
	}
	// c.br is nil on a client after close(); functions that read require it separately
	if c.bw == nil || c.activePings == nil {
		return false
	}
	if mr.payloadLength < 0 {
		return false
	}
	if c.writeHeader.rsv2 || c.writeHeader.rsv3 {
		return false
	}
	if !c.client && c.writeHeader.masked {
		return false
	}
	if c.copts == nil && mw.flate {
		return false
	}
	// the process-wide random source is not a connection's reader
	if ghconn(specRand()) != nil {
		return false
	}
	// internal buffers do not overlap
	if (gvcRegion(c.writeBuf) == gvcRegion(c.readControlBuf[:]) || gvcRegion(c.writeBuf) == gvcRegion(c.writeHeaderBuf[:]) || gvcRegion(c.writeBuf) == gvcRegion(c.readHeaderBuf[:])) {
		return false
	}
	// the buffered reader of a connection reads for that connection (ghost ownership,
	// used to state that blocking reads happen with an armed context)
	if c.br != nil && (ghconn(c.br) != c || io.Reader(c.br) == specRand()) {
		return false
	}
	return true
}

// gvcDistinct7: pairwise distinct references (channels of different element types
// cannot be compared in Go source).
func gvcDistinct7(a, b, c, d, e, f, g any) bool { panic("ghost") }

// RFC 7692 section 7.1.1: "client_no_context_takeover" constrains the compressor of
// the client, "server_no_context_takeover" that of the server. The receiver of a
// message therefore keeps a context iff the *peer's* (sender's) parameter is absent.
func specReceiverNoTakeover(isClient bool, o *compressionOptions) bool {
	if isClient {
		return o.serverNoContextTakeover // the peer (server) compresses
	}
	return o.clientNoContextTakeover
}

func specSenderNoTakeover(isClient bool, o *compressionOptions) bool {
	if isClient {
		return o.clientNoContextTakeover
	}
	return o.serverNoContextTakeover
}

// SetReadLimit documentation: "sets the max number of bytes to read for a single
// message ... Set to -1 to disable." The limit reader must hand out limit bytes and
// fail on the next one, so it is armed with limit+1 (one byte of look-ahead); a
// negative value disables the limit.
func specArmedLimit(n int64) int64 {
	if n >= 0 {
		return n + 1
	}
	return n
}

// The documented default read limit.
const specDefaultReadLimit = 32768

// specRand: the process-wide random source mask keys are drawn from (crypto/rand.Reader).
func specRand() io.Reader { return rand.Reader }

// specWritten: the header the writer must have put on the wire for a frame.
func specFrameHeaderOK(h header, isClient bool, fin bool, flate bool, op opcode, n int) bool {
	// RFC 6455 5.2 / 5.1 (client frames masked, server frames not), RFC 7692 6.1 (RSV1 only
	// on the first frame of a compressed message, i.e. a text or binary frame)
	return h.fin == fin && h.opcode == op && h.payloadLength == int64(n) &&
		h.rsv1 == (flate && (op == opText || op == opBinary)) && !h.rsv2 && !h.rsv3 && h.masked == isClient
}

// specWriteInv: the write side of a connection is usable: buffered writer present,
// buffer accounting in range, and on a client the writeBuf slice is exactly the
// writer's buffer (that alias is what extractBufioWriterBuf establishes). The bound on
// the stream position is assumption A-stream (fewer than 2^59 bytes per connection).
func specWriteInv(c *Conn) bool {
	if c.bw == nil {
		return false
	}
	g := ghwr(c.bw)
	if g.pos < 0 || g.pos >= 1<<59 || g.size <= 0 || g.buffered < 0 || g.buffered > g.size {
		return false
	}
	if c.client && len(c.writeBuf) != g.size {
		return false
	}
	return true
}

// connReady: representation invariant plus a usable write side and transport; what
// every operation that may write (also the read path: pongs, close echo, error closes)
// relies on, together with "no lock of the write side is held by this goroutine".
func connReady(c *Conn) bool {
	return connInv(c) && specWriteInv(c) && c.rwc != nil
}

// connIdle: connReady and, unless the connection is (known to be) closed, this
// goroutine holds none of the write-side locks. After close() the closing goroutine
// keeps writeMu (and on a client writeFrameMu) force-locked for good.
func connIdle(c *Conn) bool {
	return connReady(c) && (gvcClosed(c.closed) || (!gvcHeld(c.writeFrameMu.ch) && !gvcHeld(c.msgWriter.writeMu.ch)))
}

// specFreshWriter: the ghost byte stream of a bufio.Writer handed to newConn starts empty
// (the stream model of a connection begins after the opening handshake).
func specFreshWriter(w *bufio.Writer) bool {
	g := ghwr(w)
	return g.pos == 0 && g.buffered == 0 && g.size > 0
}

// connOpen: the write side and the transport reader of a ready connection are usable by this
// goroutine: it holds neither write-side lock and the buffered reader is still attached.
// Kept by every successful step of the read path (specOKKeeps); a failing step may have
// closed the connection, which leaves connIdle only.
func connOpen(c *Conn) bool {
	return connWritable(c) && c.br != nil
}

// connWritable: a ready connection whose write-side locks this goroutine does not hold (what a
// write of a control frame - pong, close echo, error close - from the read path needs).
func connWritable(c *Conn) bool {
	return connReady(c) && !gvcHeld(c.writeFrameMu.ch) && !gvcHeld(c.msgWriter.writeMu.ch)
}
