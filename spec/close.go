//go:build verif

package websocket

// RFC 6455 section 7.4.1 / 7.4.2 and the IANA WebSocket Close Code Number Registry:
// 1000-1003 and 1007-1014 are defined codes that may appear in a Close frame;
// 1004 is reserved, 1005, 1006 and 1015 "MUST NOT be set as a status code in a Close
// control frame by an endpoint"; 3000-3999 (registered) and 4000-4999 (private use)
// may be sent; 0-999 are not used, everything else is undefined.
func specSendableCode(code StatusCode) bool {
	if code >= 1000 && code <= 1003 {
		return true
	}
	if code >= 1007 && code <= 1014 {
		return true
	}
	if code >= 3000 && code <= 4999 {
		return true
	}
	return false
}

// RFC 6455 section 5.5: control frame payload <= 125 bytes; 5.5.1: the first two bytes
// are the status code (network byte order), so a reason has at most 123 bytes.
const specMaxReason = 123

func specBE16(b0, b1 byte) int { return int(b0)<<8 | int(b1) }

// specCat: byte k of the concatenation a ++ b.
func specCat(a, b []byte, k int) byte {
	if k < len(a) {
		return a[k]
	}
	return b[k-len(a)]
}

func specMin(a, b int) int {
	if a < b {
		return a
	}
	return b
}
