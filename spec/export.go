//go:build verif

package websocket

import "io"

// Exported views of the connection invariants and footprints, for contracts on code outside
// package websocket (wsjson) that can only use the public API. They exist only in the
// verifier's overlay.

// GvcUsable: what a caller of the public read-side API (Reader/Read, then Close) may rely on
// between calls on the reading goroutine: the connection is set up, this goroutine holds none
// of its locks, the transport reader is attached, and the goroutines to join on Close are
// registered.
func GvcUsable(c *Conn) bool {
	return connOpen(c) && !gvcHeld(c.readMu.ch) && ghconn(io.Reader(c.msgReader.readFunc)) == c && c.msgReader.readFunc != nil &&
		c.timeoutLoopDone != nil && (c.closeReadCtx == nil || c.closeReadDone != nil) && gvcNotSelfJoin(c)
}

// GvcWritable: the precondition of Conn.Write for a buffer that does not alias the
// connection's internal buffers.
func GvcWritable(c *Conn) bool {
	return connInv(c) && specWriteInv(c) && !gvcHeld(c.msgWriter.mu.ch) && !gvcHeld(c.msgWriter.writeMu.ch) && !gvcHeld(c.writeFrameMu.ch) &&
		(c.msgWriter.flateWriter == nil || ghconnW(ghfw(c.msgWriter.flateWriter).dst) == c) && (c.copts != nil || c.msgWriter.flateWriter == nil)
}

// GvcReaderOf: r is a message reader of c (ghost relation, see ghconn).
func GvcReaderOf(r io.Reader, c *Conn) bool { return ghconn(r) == c }

// GvcModRead: everything the read path (Reader, reads of the message reader) and Close may
// modify on a connection.
func GvcModRead(c *Conn) {
	gvcMod(&ghrd(c.br).pos)
	gvcMod(&c.readHeaderBuf)
	gvcMod(&c.readControlBuf)
	gvcModChan(c.readTimeout)
	gvcModWriteSide(c)
	gvcModChan(c.closed)
	gvcModChan(c.readMu.ch)
	gvcModChan(c.msgWriter.writeMu.ch)
	gvcMod(&c.br)
	gvcMod(&c.msgReader.flateReader)
	gvcMod(&c.msgReader.dict)
	gvcMod(&c.msgWriter.flateWriter)
	gvcMod(&c.closeReceived)
	gvcMod(&c.msgReader.ctx)
	gvcMod(&c.msgReader.flate)
	gvcMod(&c.msgReader.limitReader.n)
	gvcMod(&c.msgReader.limitReader.r)
	gvcMod(&c.msgReader.fin)
	gvcMod(&c.msgReader.payloadLength)
	gvcMod(&c.msgReader.maskKey)
	gvcMod(&c.msgReader.flateBufio)
	gvcMod(&c.msgReader.flateTail)
	gvcMod(&c.closing)
}

func gvcModWriteSide(c *Conn) {
	gvcMod(&ghwr(c.bw).pos)
	gvcMod(&ghwr(c.bw).out)
	gvcMod(&ghwr(c.bw).buffered)
	gvcMod(&ghrd(specRand()).pos)
	gvcMod(&c.writeHeader)
	gvcMod(&c.writeHeaderBuf)
	gvcModElems(c.writeBuf)
	gvcModChan(c.writeTimeout)
	gvcModChan(c.writeFrameMu.ch)
	gvcMod(&c.closeSent)
}

// GvcModWrite: everything Conn.Write may modify.
func GvcModWrite(c *Conn) {
	gvcModWriteSide(c)
	gvcModChan(c.msgWriter.mu.ch)
	gvcModChan(c.msgWriter.writeMu.ch)
	gvcMod(&c.msgWriter.ctx)
	gvcMod(&c.msgWriter.opcode)
	gvcMod(&c.msgWriter.flate)
	gvcMod(&c.msgWriter.closed)
	gvcMod(&c.msgWriter.trimWriter)
	gvcMod(&c.msgWriter.flateWriter)
	gvcMod(&ghfw(c.msgWriter.flateWriter).dst)
	gvcMod(&c.msgWriter.trimWriter.tail)
	gvcModElems(c.msgWriter.trimWriter.tail)
}

// gvcModOwnerOf: what reading from r may modify: if r is a message reader of a connection
// (ghconn), that connection's read-path footprint; a reader that belongs to no connection
// (an HTTP body) modifies nothing that is verified.
func gvcModOwnerOf(r io.Reader) {
	c := ghconn(r)
	if c == nil {
		return
	}
	gvcMod(&ghrd(c.br).pos)
	gvcMod(&c.readHeaderBuf)
	gvcMod(&c.readControlBuf)
	gvcModChan(c.readTimeout)
	gvcModWriteSide(c)
	gvcModChan(c.closed)
	gvcModChan(c.readMu.ch)
	gvcModChan(c.msgWriter.writeMu.ch)
	gvcMod(&c.br)
	gvcMod(&c.msgReader.flateReader)
	gvcMod(&c.msgReader.dict)
	gvcMod(&c.msgWriter.flateWriter)
	gvcMod(&c.closeReceived)
	gvcMod(&c.msgReader.fin)
	gvcMod(&c.msgReader.payloadLength)
	gvcMod(&c.msgReader.maskKey)
	gvcMod(&c.msgReader.limitReader.n)
}

// gvcNotSelfJoin: Close / CloseNow wait for the connection's goroutines; the caller must not
// be one of them (it would wait for its own exit until the 15 s timer fires).
func gvcNotSelfJoin(c *Conn) bool {
	return !gvcCloser(c.timeoutLoopDone) && (c.closeReadCtx == nil || !gvcCloser(c.closeReadDone) || gvcClosed(c.closeReadDone))
}
