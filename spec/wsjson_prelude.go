//go:build verif

package wsjson

// Pseudo-functions of the contract language for contracts on package wsjson (the same
// intrinsics as in /verif/spec/prelude.go; the verifier recognises them by name).

func oldBegin() int { return 0 }

func oldEnd[T any](_ int, x T) T { return x }

func gvcCalls(f string) int               { panic("ghost") }
func gvcCallSeq(f string) int             { panic("ghost") }
func gvcCallArg[T any](f string, i int) T { panic("ghost") }
func gvcCallRes[T any](f string, i int) T { panic("ghost") }

func gvcSameSlice[T any](a, b []T) bool {
	return len(a) == len(b) && cap(a) == cap(b) && (cap(a) == 0 || &a[:cap(a)][0] == &b[:cap(b)][0])
}

func gvcMod[T any](p *T)       {}
func gvcModElems[T any](s []T) {}
