//go:build verif

package websocket

// RFC 6455 section 5.3: "Octet i of the transformed data is the XOR of octet i of
// the original data with octet at index i modulo 4 of the masking key."
// The key is held as a uint32 whose little-endian bytes are the four key octets in
// wire order (frame.go reads it with binary.LittleEndian), so key octet j is
// byte(key >> (8*j)).

func specMaskByte(key uint32, i int) byte {
	return byte(key >> (8 * (uint(i) % 4)))
}

// specRot is the key to continue with after n bytes have been masked: key octet j
// of the result is key octet (j+n) mod 4 of the original.
func specRot(key uint32, n int) uint32 {
	s := 8 * (uint(n) % 4)
	return key>>s | key<<((32-s)%32)
}

// specUnrot: the key before n bytes were masked, given the key after (inverse of specRot).
func specUnrot(key uint32, n int) uint32 {
	return specRot(key, int((4-uint(n)%4)%4))
}
