//go:build verif

package websocket

// netConnInv: representation invariant of the net.Conn adapter: it wraps one connection,
// its two mutexes belong to that connection and are distinct from each other and from the
// connection's own locks and channels, and both per-direction contexts exist.
func netConnInv(nc *netConn) bool {
	if nc == nil || nc.c == nil || nc.readMu == nil || nc.writeMu == nil {
		return false
	}
	if nc.readMu.c != nc.c || nc.writeMu.c != nc.c || nc.readMu.ch == nil || nc.writeMu.ch == nil {
		return false
	}
	if nc.readCtx == nil || nc.writeCtx == nil {
		return false
	}
	c := nc.c
	if c.readMu == nil || c.writeFrameMu == nil || c.msgWriter == nil || c.msgWriter.mu == nil || c.msgWriter.writeMu == nil {
		return false
	}
	// the adapter's two mutex channels are distinct from each other and from every channel of
	// the connection
	r, w := nc.readMu.ch, nc.writeMu.ch
	if r == w {
		return false
	}
	mw := c.msgWriter
	if r == c.closed || r == c.readMu.ch || r == c.writeFrameMu.ch || r == mw.mu.ch || r == mw.writeMu.ch || gvcSameRef(r, c.readTimeout) || gvcSameRef(r, c.writeTimeout) {
		return false
	}
	if w == c.closed || w == c.readMu.ch || w == c.writeFrameMu.ch || w == mw.mu.ch || w == mw.writeMu.ch || gvcSameRef(w, c.readTimeout) || gvcSameRef(w, c.writeTimeout) {
		return false
	}
	return true
}

// specNetConnEOF: "A received StatusNormalClosure or StatusGoingAway close frame will be
// translated to io.EOF when reading" (NetConn documentation; property C18).
func specNetConnEOF(err error) bool {
	return errIsCE(err) && (errCECode(err) == StatusNormalClosure || errCECode(err) == StatusGoingAway)
}
