//go:build verif

package websocket

import "io"

// RFC 6455 section 5.2 (base framing protocol), written from the RFC's figure and
// field descriptions, not from frame.go.
//
//	 0                   1                   2                   3
//	 0 1 2 3 4 5 6 7 8 9 0 1 2 3 4 5 6 7 8 9 0 1 2 3 4 5 6 7 8 9 0 1
//	+-+-+-+-+-------+-+-------------+-------------------------------+
//	|F|R|R|R| opcode|M| Payload len |    Extended payload length    |
//	|I|S|S|S|  (4)  |A|     (7)     |             (16/64)           |
//	|N|V|V|V|       |S|             |   (if payload len==126/127)   |
//	| |1|2|3|       |K|             |                               |
//	+-+-+-+-+-------+-+-------------+ - - - - - - - - - - - - - - - +
//	 ... Masking-key, if MASK set to 1 (4 bytes) ...

// specExtLen: bytes of extended payload length. "the minimal number of bytes MUST be
// used to encode the length".
func specExtLen(n int64) int {
	if n <= 125 {
		return 0
	}
	if n <= 65535 {
		return 2
	}
	return 8
}

func specHdrLen(h header) int {
	n := 2 + specExtLen(h.payloadLength)
	if h.masked {
		n += 4
	}
	return n
}

func specBit(b bool, v byte) byte {
	if b {
		return v
	}
	return 0
}

// specHdrByte: byte k of the encoding of h (0 <= k < specHdrLen(h)).
func specHdrByte(h header, k int) byte {
	ext := specExtLen(h.payloadLength)
	if k == 0 {
		return specBit(h.fin, 0x80) | specBit(h.rsv1, 0x40) | specBit(h.rsv2, 0x20) | specBit(h.rsv3, 0x10) | (byte(h.opcode) & 0x0f)
	}
	if k == 1 {
		l7 := byte(127)
		if ext == 0 {
			l7 = byte(h.payloadLength)
		} else if ext == 2 {
			l7 = 126
		}
		return specBit(h.masked, 0x80) | l7
	}
	if k < 2+ext {
		// network byte order: most significant byte first
		shift := uint(8 * (ext - 1 - (k - 2)))
		return byte(uint64(h.payloadLength) >> shift)
	}
	// masking key: the uint32 holds the four key octets in little-endian order
	j := uint(k - 2 - ext)
	return byte(h.maskKey >> (8 * j))
}

// Decoding (what a receiver must understand; it is not required to reject a
// non-minimal length encoding).

func specDecExt(b1 byte) int {
	l7 := b1 & 0x7f
	if l7 == 126 {
		return 2
	}
	if l7 == 127 {
		return 8
	}
	return 0
}

func specDecLen(b1, e0, e1, e2, e3, e4, e5, e6, e7 byte) int64 {
	l7 := b1 & 0x7f
	if l7 == 126 {
		return int64(e0)<<8 | int64(e1)
	}
	if l7 == 127 {
		return int64(uint64(e0)<<56 | uint64(e1)<<48 | uint64(e2)<<40 | uint64(e3)<<32 | uint64(e4)<<24 | uint64(e5)<<16 | uint64(e6)<<8 | uint64(e7))
	}
	return int64(l7)
}

func specDecKey(k0, k1, k2, k3 byte) uint32 {
	return uint32(k0) | uint32(k1)<<8 | uint32(k2)<<16 | uint32(k3)<<24
}

// specDecoded: h is the decoding of the header that starts at stream position p of r.
func specDecoded(r io.Reader, p int, h header) bool {
	b0 := rdin(r, p)
	b1 := rdin(r, p+1)
	ext := specDecExt(b1)
	if h.fin != (b0&0x80 != 0) || h.rsv1 != (b0&0x40 != 0) || h.rsv2 != (b0&0x20 != 0) || h.rsv3 != (b0&0x10 != 0) {
		return false
	}
	if h.opcode != opcode(b0&0x0f) {
		return false
	}
	if h.masked != (b1&0x80 != 0) {
		return false
	}
	if h.payloadLength != specDecLen(b1, rdin(r, p+2), rdin(r, p+3), rdin(r, p+4), rdin(r, p+5), rdin(r, p+6), rdin(r, p+7), rdin(r, p+8), rdin(r, p+9)) {
		return false
	}
	if h.masked {
		return h.maskKey == specDecKey(rdin(r, p+2+ext), rdin(r, p+3+ext), rdin(r, p+4+ext), rdin(r, p+5+ext))
	}
	return h.maskKey == 0
}

// specDecodedLen: number of header bytes consumed.
func specDecodedLen(r io.Reader, p int) int {
	b1 := rdin(r, p+1)
	n := 2 + specDecExt(b1)
	if b1&0x80 != 0 {
		n += 4
	}
	return n
}

// specFwdOrTail: byte k of (what tw forwarded to its writer since stream position base) ++ tw.tail.
func specFwdOrTail(tw *trimLastFourBytesWriter, base, k int) byte {
	fwd := ghwr(tw.w).pos - base
	if k < fwd {
		return ghwr(tw.w).out[base+k]
	}
	return tw.tail[k-fwd]
}
