//go:build verif

package websocket

import (
	"io"
	"net/http"
	"net/url"
)

// ---- RFC 7692 permessage-deflate parameter grammar, as far as this library honours it.
//
// Section 7.1: the four parameters are server_no_context_takeover,
// client_no_context_takeover, server_max_window_bits[=8..15], client_max_window_bits[=8..15].
// The library cannot shrink its LZ77 window, so
//  - as a server it may accept an offer only if it does not have to use a server window
//    below 15 bits ("server_max_window_bits=15" is the only acceptable value), while any
//    client_max_window_bits hint is acceptable (a larger window can decode everything);
//  - as a client it may accept a response carrying server_max_window_bits=N (the server
//    limits itself) but not client_max_window_bits (it could not honour it).
// Everything else (unknown, duplicated with a bad value, malformed) must be declined.

// specHasPrefix is strings.HasPrefix (uninterpreted here; assumed for the library function).
//
//gvc:uninterpreted
func specHasPrefix(s, prefix string) bool { panic("ghost") }

// specEqFold is strings.EqualFold.
//
//gvc:uninterpreted
func specEqFold(a, b string) bool { panic("ghost") }

// A parameter of an offer the server can accept.
func specOfferParamOK(p string) bool {
	return p == "client_no_context_takeover" || p == "server_no_context_takeover" ||
		p == "client_max_window_bits" || p == "server_max_window_bits=15" ||
		specHasPrefix(p, "client_max_window_bits=")
}

// A parameter of a response the client can accept.
func specResponseParamOK(p string) bool {
	return p == "client_no_context_takeover" || p == "server_no_context_takeover" ||
		specHasPrefix(p, "server_max_window_bits=")
}

// specModeNCT: the mode's own choice of no_context_takeover (both directions).
func specModeNCT(m CompressionMode) bool { return m == CompressionNoContextTakeover }

// ---- header token lists (RFC 7230 #rule lists over all header lines of a name)

// specTokCount / specTok: the comma separated, trimmed tokens of all lines of header key.
//
//gvc:uninterpreted
func specTokCount(h http.Header, key string) int { panic("ghost") }

//gvc:uninterpreted
func specTok(h http.Header, key string, i int) string { panic("ghost") }

// specHasToken: some token of header key equals token, ignoring case.
func specHasToken(h http.Header, key, token string) bool {
	return exists(0, specTokCount(h, key), func(i int) bool { return specEqFold(specTok(h, key, i), token) })
}

// specOfferParamsOK: every parameter of an offer is one the server can accept.
//
//gvc:opaque
func specOfferParamsOK(params []string) bool {
	return forall(0, len(params), func(i int) bool { return specOfferParamOK(params[i]) })
}

// specOfferOK: an element of Sec-WebSocket-Extensions the server can accept as a
// permessage-deflate offer (RFC 7692 5: a server declines an offer it cannot honour and
// may fall back to a later one).
func specOfferOK(ext websocketExtension) bool {
	return ext.name == "permessage-deflate" && specOfferParamsOK(ext.params)
}

// specOptsFor: (client, server) are the no_context_takeover flags agreed by accepting
// params under the endpoint's own preference (ownClient, ownServer): a flag is set if the
// peer's list asks for it, and otherwise is the endpoint's own preference.
//
//gvc:opaque
func specOptsFor(client, server bool, params []string, ownClient, ownServer bool) bool {
	return forall(0, len(params), func(i int) bool {
		return (params[i] != "client_no_context_takeover" || client) &&
			(params[i] != "server_no_context_takeover" || server)
	}) &&
		(!forall(0, len(params), func(i int) bool { return params[i] != "client_no_context_takeover" }) || client == ownClient) &&
		(!forall(0, len(params), func(i int) bool { return params[i] != "server_no_context_takeover" }) || server == ownServer)
}

// ---- the elements of Sec-WebSocket-Extensions of a header (parsing assumed, see
// websocketExtensions' contract)
//
//gvc:uninterpreted
func specExtCount(h http.Header) int { panic("ghost") }

//gvc:uninterpreted
func specExtName(h http.Header, i int) string { panic("ghost") }

//gvc:uninterpreted
func specExtParamCount(h http.Header, i int) int { panic("ghost") }

//gvc:uninterpreted
func specExtParam(h http.Header, i, j int) string { panic("ghost") }

// specRespParamsOK: every parameter of the first extension element of a response header is
// one a client that offered permessage-deflate can accept.
//
//gvc:opaque
func specRespParamsOK(h http.Header) bool {
	return forall(0, specExtParamCount(h, 0), func(j int) bool { return specResponseParamOK(specExtParam(h, 0, j)) })
}

// specOptsForH: specOptsFor over the parameters of the first extension element of h.
//
//gvc:opaque
func specOptsForH(client, server bool, h http.Header, ownClient, ownServer bool) bool {
	n := specExtParamCount(h, 0)
	return forall(0, n, func(i int) bool {
		return (specExtParam(h, 0, i) != "client_no_context_takeover" || client) &&
			(specExtParam(h, 0, i) != "server_no_context_takeover" || server)
	}) &&
		(!forall(0, n, func(i int) bool { return specExtParam(h, 0, i) != "client_no_context_takeover" }) || client == ownClient) &&
		(!forall(0, n, func(i int) bool { return specExtParam(h, 0, i) != "server_no_context_takeover" }) || server == ownServer)
}

// specOptsHeader: the permessage-deflate element of a Sec-WebSocket-Extensions header that
// states exactly the agreed parameters (RFC 7692 7.1): the extension name followed by
// "; client_no_context_takeover" and "; server_no_context_takeover" for the flags that are set.
func specOptsHeader(client, server bool) string {
	switch {
	case client && server:
		return "permessage-deflate; client_no_context_takeover; server_no_context_takeover"
	case client:
		return "permessage-deflate; client_no_context_takeover"
	case server:
		return "permessage-deflate; server_no_context_takeover"
	}
	return "permessage-deflate"
}

// ---- net/http, encoding/base64, strings, net/url, path/filepath: the library functions
// the handshake checks are built from are uninterpreted; the contracts below pin down
// which combination of them Accept and Dial enforce.

//gvc:uninterpreted
func specProtoAtLeast(r *http.Request, major, minor int) bool { panic("ghost") }

// specHdrGet: http.Header.Get (first value of the canonicalised key, "" if none).
//
//gvc:uninterpreted
func specHdrGet(h http.Header, key string) string { panic("ghost") }

// specHdrCount / specHdrVal: http.Header.Values.
//
//gvc:uninterpreted
func specHdrCount(h http.Header, key string) int { panic("ghost") }

//gvc:uninterpreted
func specHdrVal(h http.Header, key string, i int) string { panic("ghost") }

//gvc:uninterpreted
func specTrim(s string) string { panic("ghost") }

// specB64OK / specB64Len: base64.StdEncoding.DecodeString succeeds / length of its result.
//
//gvc:uninterpreted
func specB64OK(s string) bool { panic("ghost") }

//gvc:uninterpreted
func specB64Len(s string) int { panic("ghost") }

// specHasTokenQ: some token of header key equals token, ignoring case.
//
//gvc:opaque
func specHasTokenQ(h http.Header, key, token string) bool {
	return exists(0, specTokCount(h, key), func(i int) bool { return specEqFold(specTok(h, key, i), token) })
}

// specValidUpgrade: RFC 6455 4.2.1, the conditions a server checks on the client's opening
// handshake: HTTP/1.1 or later GET, Connection: upgrade, Upgrade: websocket, version 13,
// exactly one Sec-WebSocket-Key that (trimmed) decodes to 16 bytes.
func specValidUpgrade(r *http.Request) bool {
	return specProtoAtLeast(r, 1, 1) &&
		specHasTokenQ(r.Header, "Connection", "Upgrade") &&
		specHasTokenQ(r.Header, "Upgrade", "websocket") &&
		r.Method == "GET" &&
		specHdrGet(r.Header, "Sec-WebSocket-Version") == "13" &&
		specHdrCount(r.Header, "Sec-WebSocket-Key") == 1 &&
		specB64OK(specTrim(specHdrVal(r.Header, "Sec-WebSocket-Key", 0))) &&
		specB64Len(specTrim(specHdrVal(r.Header, "Sec-WebSocket-Key", 0))) == 16
}

// specRespHeader: the header map of a ResponseWriter (http.ResponseWriter.Header()).
//
//gvc:uninterpreted
func specRespHeader(w http.ResponseWriter) http.Header { panic("ghost") }

// ---- origin check (C12)

// specURLOK / specURLHost: url.Parse succeeds / the Host of the parsed URL.
//
//gvc:uninterpreted
func specURLOK(s string) bool { panic("ghost") }

//gvc:uninterpreted
func specURLHost(s string) string { panic("ghost") }

//gvc:uninterpreted
func specLower(s string) string { panic("ghost") }

// specPatOK / specMatch: filepath.Match(pattern, s) reports no syntax error / a match.
//
//gvc:uninterpreted
func specPatOK(pattern, s string) bool { panic("ghost") }

//gvc:uninterpreted
func specMatch(pattern, s string) bool { panic("ghost") }

// specPatternAuthorises: some configured pattern matches host (case-insensitively), and no
// earlier pattern was malformed (a malformed pattern refuses the request).
//
//gvc:opaque
func specPatternAuthorises(patterns []string, host string) bool {
	return exists(0, len(patterns), func(k int) bool {
		return specPatOK(specLower(patterns[k]), specLower(host)) && specMatch(specLower(patterns[k]), specLower(host)) &&
			forall(0, k, func(j int) bool {
				return specPatOK(specLower(patterns[j]), specLower(host)) && !specMatch(specLower(patterns[j]), specLower(host))
			})
	})
}

// specOriginAuthorised: property C12 - no Origin header, or an Origin whose host equals the
// request's Host ignoring case, or whose host one of the patterns authorises.
func specOriginAuthorised(r *http.Request, patterns []string) bool {
	origin := specHdrGet(r.Header, "Origin")
	if origin == "" {
		return true
	}
	if !specURLOK(origin) {
		return false
	}
	return specEqFold(r.Host, specURLHost(origin)) || specPatternAuthorises(patterns, specURLHost(origin))
}

// ---- subprotocol selection (C11) and verification (C13)

// specOffered: the client offered subprotocol sp (some token of Sec-WebSocket-Protocol
// equals it, ignoring case).
//
//gvc:opaque
func specOffered(h http.Header, sp string) bool {
	return exists(0, specTokCount(h, "Sec-WebSocket-Protocol"), func(j int) bool {
		return specEqFold(sp, specTok(h, "Sec-WebSocket-Protocol", j))
	})
}

// specAcceptKey: base64(SHA-1(key ++ "258EAFA5-E914-47DA-95CA-C5AB0DC85B11")) (RFC 6455 4.2.2).
//
//gvc:uninterpreted
func specAcceptKey(key string) string { panic("ghost") }

// specRequested: proto is one of the subprotocols the client asked for (ignoring case).
//
//gvc:opaque
func specRequested(subprotos []string, proto string) bool {
	return exists(0, len(subprotos), func(i int) bool { return specEqFold(subprotos[i], proto) })
}

// specValidResponse: RFC 6455 4.1, what a client checks on the server's handshake response
// (extensions are checked separately).
func specValidResponse(subprotos []string, key string, resp *http.Response) bool {
	proto := specHdrGet(resp.Header, "Sec-WebSocket-Protocol")
	return resp.StatusCode == 101 &&
		specHasTokenQ(resp.Header, "Connection", "Upgrade") &&
		specHasTokenQ(resp.Header, "Upgrade", "WebSocket") &&
		specHdrGet(resp.Header, "Sec-WebSocket-Accept") == specAcceptKey(key) &&
		(proto == "" || specRequested(subprotos, proto))
}

// ---- ghost state of an http.ResponseWriter: what Accept did to the response
//   status:   the status code written (WriteHeader / http.Error), 0 if none yet
//   hijacked: Hijack() succeeded (the connection was taken over)
type ghostResp struct {
	status   int
	hijacked bool
}

//gvc:ghost
func ghresp(w any) *ghostResp { panic("ghost") }

// ghostHdr: the values last Set in a (response) header map.
type ghostHdr struct {
	vals map[string]string
}

//gvc:ghost
func ghhdr(h http.Header) *ghostHdr { panic("ghost") }

//gvc:uninterpreted
func specStatusText(code int) string { panic("ghost") }

// specOriginPatterns: the configured origin patterns (none for nil options).
func specOriginPatterns(opts *AcceptOptions) []string {
	if opts == nil {
		return nil
	}
	return opts.OriginPatterns
}

// ---- dial side (C13): ghost record of the request handed to the HTTP client
type ghostClient struct {
	sent *http.Request
}

//gvc:ghost
func ghclient(c *http.Client) *ghostClient { panic("ghost") }

// specJoin: strings.Join(a, sep).
//
//gvc:uninterpreted
func specJoin(a []string, sep string) string { panic("ghost") }

//gvc:uninterpreted
func specURLString(u *url.URL) string { panic("ghost") }

// specClonedFrom: h is a copy of the header map orig (http.Header.Clone) to which values
// were then Set.
//
//gvc:uninterpreted
func specCloneOf(orig http.Header) http.Header { panic("ghost") }

// specB64Enc16: base64.StdEncoding.EncodeToString of the 16 bytes r delivers from position pos.
//
//gvc:uninterpreted
func specB64Enc16(r io.Reader, pos int) string { panic("ghost") }

// specUpgradeRequestSent: RFC 6455 4.1 - the opening handshake the client sends.
func specUpgradeRequestSent(rq *http.Request, opts *DialOptions, copts *compressionOptions, key string) bool {
	if rq == nil || rq.Method != "GET" {
		return false
	}
	h := ghhdr(rq.Header)
	if h.vals["Connection"] != "Upgrade" || h.vals["Upgrade"] != "websocket" || h.vals["Sec-WebSocket-Version"] != "13" || h.vals["Sec-WebSocket-Key"] != key {
		return false
	}
	if len(opts.Subprotocols) > 0 && h.vals["Sec-WebSocket-Protocol"] != specJoin(opts.Subprotocols, ",") {
		return false
	}
	if copts != nil && h.vals["Sec-WebSocket-Extensions"] != specOptsHeader(copts.clientNoContextTakeover, copts.serverNoContextTakeover) {
		return false
	}
	if len(opts.Host) > 0 && rq.Host != opts.Host {
		return false
	}
	return gvcSameMap(rq.Header, specCloneOf(opts.HTTPHeader))
}

// specB64Key: base64.StdEncoding.EncodeToString of 16 bytes.
//
//gvc:uninterpreted
func specB64Key(b0, b1, b2, b3, b4, b5, b6, b7, b8, b9, b10, b11, b12, b13, b14, b15 byte) string {
	panic("ghost")
}

// specKeyFrom: the Sec-WebSocket-Key made of the 16 bytes the random source delivers from pos.
func specKeyFrom(src io.Reader, pos int) string {
	return specB64Key(rdin(src, pos), rdin(src, pos+1), rdin(src, pos+2), rdin(src, pos+3), rdin(src, pos+4), rdin(src, pos+5), rdin(src, pos+6), rdin(src, pos+7),
		rdin(src, pos+8), rdin(src, pos+9), rdin(src, pos+10), rdin(src, pos+11), rdin(src, pos+12), rdin(src, pos+13), rdin(src, pos+14), rdin(src, pos+15))
}

// specRandSrc: the random source dial uses (the injected one in tests, crypto/rand otherwise).
func specRandSrc(rr io.Reader) io.Reader {
	if rr == nil {
		return specRand()
	}
	return rr
}

func specDialSubprotocols(opts *DialOptions) []string {
	if opts == nil {
		return nil
	}
	return opts.Subprotocols
}
