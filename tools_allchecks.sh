#!/bin/bash
# usage: tools_allchecks.sh <repo-dir> : runs every registered quick check against <repo-dir> (evidence to /tmp)
d=${1:-/repo}
for p in $(python3 -c "import json;print(' '.join(c['property_id'] for c in json.load(open('/verif/MANIFEST.json'))['checks']))"); do
  /verif/bin/gvc check --prop $p --repo $d --out /tmp/allchecks_out --jobs 14 2>&1 | grep "^property\|VIOLATION" | cut -c1-240
done
rm -rf /tmp/allchecks_out
