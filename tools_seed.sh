#!/bin/bash
# usage: tools_seed.sh <seed-dir containing patch.diff demo_test.go> <prop> [confirm]
# Confirms a seeded change on a scratch copy of /repo (suite passes, demo fails with it,
# demo passes without) and runs the property's check against the patched copy.
sd=$1; prop=$2; mode=$3
export GOFLAGS=-mod=mod GOPROXY=off GOSUMDB=off GOTOOLCHAIN=local
d=$(mktemp -d /tmp/gvcseed.XXXXXX)
rsync -a --exclude .git /repo/ $d/
cd $d
if [ "$mode" = confirm ]; then
  cp $sd/demo_test.go $d/zz_seed_demo_test.go
  if go test -vet=off -count=1 -timeout 120s -run 'TestSeedDemo' . >/tmp/seed_clean.log 2>&1; then echo "demo on clean tree: PASS (ok)"; else echo "demo on clean tree: FAIL (bad seed)"; tail -5 /tmp/seed_clean.log; fi
  rm -f $d/zz_seed_demo_test.go
fi
if ! patch -p1 -s < $sd/patch.diff; then echo "PATCH DID NOT APPLY"; rm -rf $d; exit 3; fi
if [ "$mode" = confirm ]; then
  if go test -vet=off -count=1 -timeout 10m . ./internal/... ./wsjson/... >/tmp/seed_suite.log 2>&1; then echo "suite with change: PASS (ok)"; else echo "suite with change: FAIL (bad seed)"; tail -5 /tmp/seed_suite.log; fi
  cp $sd/demo_test.go $d/zz_seed_demo_test.go
  if go test -vet=off -count=1 -timeout 120s -run 'TestSeedDemo' . >/tmp/seed_demo.log 2>&1; then echo "demo with change: PASS (bad seed: does not manifest)"; else echo "demo with change: FAIL (ok)"; fi
  rm -f $d/zz_seed_demo_test.go
fi
cd /verif
/verif/bin/gvc check --prop $prop --repo $d --out /tmp/gvcseedout --jobs 12 2>&1 | grep -v "^KNOWN" | cut -c1-220 | head -8
echo "exit=$?"
rm -rf $d
