#!/bin/bash
# usage: confirm_seed.sh <seed-dir>
sd=$1
export GOFLAGS=-mod=mod GOPROXY=off GOSUMDB=off GOTOOLCHAIN=local
d=$(mktemp -d /tmp/gvcseed.XXXXXX)
rsync -a --exclude .git /repo/ $d/
cd $d
pkg=.; demo=$sd/demo_test.go; dst=$d/zz_seed_demo_test.go
if [ -f $sd/demo_wsjson_test.go ]; then pkg=./wsjson; demo=$sd/demo_wsjson_test.go; dst=$d/wsjson/zz_seed_demo_test.go; fi
cp $demo $dst
if go test -vet=off -count=1 -timeout 120s -run 'TestSeedDemo$' $pkg >/tmp/seed_clean.$$.log 2>&1; then a="clean:PASS"; else a="clean:FAIL(bad)"; fi
rm -f $dst
if ! patch -p1 -s < $sd/patch.diff; then echo "$(basename $sd) PATCH DID NOT APPLY"; rm -rf $d; exit 3; fi
if go test -vet=off -count=1 -timeout 10m . ./internal/... ./wsjson/... >/tmp/seed_suite.$$.log 2>&1; then b="suite:PASS"; else b="suite:FAIL(bad)"; fi
cp $demo $dst
if go test -vet=off -count=1 -timeout 120s -run 'TestSeedDemo$' $pkg >/tmp/seed_demo.$$.log 2>&1; then c="changed:PASS(bad)"; else c="changed:FAIL"; fi
echo "$(basename $sd) $a $b $c"
rm -rf $d /tmp/seed_*.$$.log
