#!/bin/bash
# usage: tools_mutcheck.sh <file> <sed-expr> <prop>
# scratch copy of /repo + sed mutation + `gvc check` of one property against the copy (evidence to /tmp)
file=$1; expr=$2; prop=$3
d=$(mktemp -d /tmp/gvcmut.XXXXXX)
rsync -a --exclude .git /repo/ $d/
sed -i "$expr" $d/$file
if diff -q /repo/$file $d/$file >/dev/null; then echo "MUTATION DID NOT APPLY"; rm -rf $d; exit 3; fi
diff /repo/$file $d/$file | head -6
(cd $d && GOFLAGS=-mod=mod GOPROXY=off GOSUMDB=off go build ./... ) || { echo "MUTANT DOES NOT BUILD"; rm -rf $d; exit 3; }
/verif/bin/gvc check --prop $prop --repo $d --out /tmp/gvcmutout --jobs 12 2>&1 | cut -c1-260 | tail -6
rc=${PIPESTATUS[0]}
for f in /tmp/gvcmutout/replay/$prop/*.json; do case $f in *.input.json|*.overlay.json) ;; *) python3 -c "
import json,sys
d=json.load(open('$f')); r=d.get('replay'); print('  replay:', r if isinstance(r,str) else (r.get('result'), r.get('observed')))" ;; esac; done 2>/dev/null | head
rm -rf $d /tmp/gvcmutout
exit $rc
