package sym

import (
	"fmt"
	"go/ast"
	"go/token"
	"go/types"
	"os"
	"path/filepath"
	"regexp"
	"sort"
	"strings"

	"golang.org/x/tools/go/packages"
	"golang.org/x/tools/go/ssa"
	"golang.org/x/tools/go/ssa/ssautil"

	"gvc/contract"
	"gvc/smt"
)

const MainPkg = "nhooyr.io/websocket"

var LoadPatterns = []string{
	"nhooyr.io/websocket", "nhooyr.io/websocket/wsjson",
	"nhooyr.io/websocket/internal/errd", "nhooyr.io/websocket/internal/util",
	"nhooyr.io/websocket/internal/xsync", "nhooyr.io/websocket/internal/bpool",
	"encoding/binary", "math/bits",
}

type Config struct {
	RepoDir   string
	VerifDir  string
	Verbose   bool
	TimeoutS  int
	NeedAgree int
	Jobs      int
	DumpDir   string
}

type VarRef struct {
	Name string
	Kind string // "param" (entry value), "old" (entry value, via name__old), "result", "local" (current cell value)
	Idx  int
	Obj  *types.Var
	Type types.Type
}

type ClauseFn struct {
	C    *contract.Clause
	Name string
	Fn   *ssa.Function
	Vars []VarRef
}

type LoopContract struct {
	Invariants []*ClauseFn
	Decreases  *ClauseFn
	Modifies   *ClauseFn
}

type FnContract struct {
	B        *contract.Block
	Obj      *types.Func
	Fn       *ssa.Function // nil for interface methods / body-less
	Key      string        // normalised name
	Requires []*ClauseFn
	Ensures  []*ClauseFn
	Modifies []*ClauseFn
	Inputs   []*ClauseFn // replay inputs (uint64-valued expressions over the entry state)
	Loops    map[int]*LoopContract
	Lemma    bool
	// parameter names (receiver first) and result names as used in clauses
	PNames []string
	RNames []string
	PTypes []types.Type
	RTypes []types.Type
	// closure target "parent$n": the parent function, the literal's ordinal and the names of
	// the captured variables that lead the parameter list of the clause functions
	ClosureOf  *types.Func
	ClosureOrd int
	Captured   []string
}

type Engine struct {
	Cfg   Config
	C     *smt.Ctx
	Fset  *token.FileSet
	Prog  *ssa.Program
	Pkgs  map[string]*packages.Package
	SPkgs map[string]*ssa.Package

	Contracts    map[string]*FnContract // by normalised function name
	ByFn         map[*ssa.Function]*FnContract
	Blocks       []*contract.Block
	Uninterp     map[*ssa.Function]bool // spec functions marked //gvc:uninterpreted
	Opaque       map[*ssa.Function]bool // spec functions marked //gvc:opaque (definition revealed on request)
	skMemo       map[*smt.Term]*smt.Term
	hqMemo       map[*smt.Term]bool
	defImpl      map[*smt.Term]bool
	NoEffect     map[string]string // interface method names assumed to have no effect (stdlib.gvc: noeffect)
	Guards       map[string]*contract.Block // channel field -> guard declaration
	DefEqs       map[*smt.Term][2]*smt.Term // definitional equalities of revealed opaque applications
	GhostAcc     map[*ssa.Function]bool // //gvc:ghost accessors
	Overlay      map[string][]byte
	GenSrc       map[string]string
	strLits      map[string]*smt.Term
	strLitList   []string
	nextCell     int
	cutCount     int
	errSentinels []*smt.Term
	globalsSeen  map[string]*smt.Term
	headStates   map[string]*State
	UsedAssumed  map[string]bool
	foreignGlobals map[string]bool
	closedFields, sentFields map[string]bool
	vaMemo map[*smt.Term][]*smt.Term
	kindIdx map[string]int

	Obligs []*Obligation
	Covers []*Cover
	InfeasibleSites []string
	Errors []string // tool errors
	// statistics
	Stats map[string]int
}

func NewEngine(cfg Config) *Engine {
	defer func() {}()
	ctx := smt.NewCtx()
	trueTerm, falseTerm = ctx.True(), ctx.False()
	return &Engine{Cfg: cfg, C: ctx, Contracts: map[string]*FnContract{}, ByFn: map[*ssa.Function]*FnContract{},
		Uninterp: map[*ssa.Function]bool{}, Opaque: map[*ssa.Function]bool{}, DefEqs: map[*smt.Term][2]*smt.Term{}, skMemo: map[*smt.Term]*smt.Term{}, hqMemo: map[*smt.Term]bool{}, defImpl: map[*smt.Term]bool{}, NoEffect: map[string]string{}, GhostAcc: map[*ssa.Function]bool{}, Overlay: map[string][]byte{}, GenSrc: map[string]string{},
		strLits: map[string]*smt.Term{}, globalsSeen: map[string]*smt.Term{}, Stats: map[string]int{}, headStates: map[string]*State{}, UsedAssumed: map[string]bool{}, foreignGlobals: map[string]bool{}, vaMemo: map[*smt.Term][]*smt.Term{}, kindIdx: map[string]int{}}
}

func (e *Engine) loadPkgs() (map[string]*packages.Package, []*packages.Package, error) {
	mode := packages.NeedName | packages.NeedFiles | packages.NeedCompiledGoFiles | packages.NeedImports | packages.NeedTypes | packages.NeedTypesSizes | packages.NeedSyntax | packages.NeedTypesInfo
	e.Fset = token.NewFileSet()
	cfg := &packages.Config{Mode: mode, Dir: e.Cfg.RepoDir, Fset: e.Fset, BuildFlags: []string{"-tags=verif"}, Overlay: e.Overlay,
		Env: append(os.Environ(), "GOFLAGS=-mod=mod", "GOPROXY=off", "GOSUMDB=off", "GOTOOLCHAIN=local", "GOWORK=off")}
	pkgs, err := packages.Load(cfg, LoadPatterns...)
	if err != nil {
		return nil, nil, err
	}
	m := map[string]*packages.Package{}
	var errs []string
	for _, p := range pkgs {
		m[p.PkgPath] = p
		for _, pe := range p.Errors {
			errs = append(errs, pe.Error())
		}
	}
	if len(errs) > 0 {
		if len(errs) > 12 {
			errs = errs[:12]
		}
		return nil, nil, fmt.Errorf("package errors:\n  %s", strings.Join(errs, "\n  "))
	}
	return m, pkgs, nil
}

// Load reads contracts, generates clause functions, loads the repository (current
// working tree) with the overlay, and builds SSA in naive form.
func (e *Engine) Load() error {
	// 1. overlay: spec files (package websocket) from /verif/spec
	specs, _ := filepath.Glob(filepath.Join(e.Cfg.VerifDir, "spec", "*.go"))
	sort.Strings(specs)
	for _, sp := range specs {
		b, err := os.ReadFile(sp)
		if err != nil {
			return err
		}
		dst := filepath.Join(e.Cfg.RepoDir, "gvcspec_"+filepath.Base(sp))
		if strings.HasPrefix(filepath.Base(sp), "wsjson_") {
			dst = filepath.Join(e.Cfg.RepoDir, "wsjson", "gvcspec_"+filepath.Base(sp))
		}
		e.Overlay[dst] = b
	}
	// 2. contracts: //@ blocks in the repo's contract files and the assumed library
	var files []string
	repoC, _ := filepath.Glob(filepath.Join(e.Cfg.RepoDir, "contracts*_verif.go"))
	files = append(files, repoC...)
	wj, _ := filepath.Glob(filepath.Join(e.Cfg.RepoDir, "wsjson", "contracts*_verif.go"))
	files = append(files, wj...)
	lib, _ := filepath.Glob(filepath.Join(e.Cfg.VerifDir, "contracts", "*.gvc"))
	sort.Strings(lib)
	files = append(files, lib...)
	for _, f := range files {
		b, err := os.ReadFile(f)
		if err != nil {
			return err
		}
		bl, err := contract.Parse(f, string(b))
		if err != nil {
			return err
		}
		e.Blocks = append(e.Blocks, bl...)
	}
	// 3. phase 1: types only, to resolve signatures
	pm, _, err := e.loadPkgs()
	if err != nil {
		return fmt.Errorf("phase 1: %v", err)
	}
	e.Pkgs = pm
	if err := e.generate(); err != nil {
		return err
	}
	// 4. phase 2: with generated clause functions
	pm, plist, err := e.loadPkgs()
	if err != nil {
		if e.Cfg.DumpDir != "" {
			for k, v := range e.GenSrc {
				_ = os.MkdirAll(e.Cfg.DumpDir, 0o755)
				_ = os.WriteFile(filepath.Join(e.Cfg.DumpDir, filepath.Base(k)), []byte(v), 0o644)
			}
		}
		return fmt.Errorf("phase 2 (generated contracts do not type-check): %v", e.mapGenErr(err))
	}
	e.Pkgs = pm
	prog, spkgs := ssautil.Packages(plist, ssa.NaiveForm|ssa.GlobalDebug)
	e.Prog = prog
	e.SPkgs = map[string]*ssa.Package{}
	for i, sp := range spkgs {
		if sp == nil {
			return fmt.Errorf("no SSA for %s", plist[i].PkgPath)
		}
		sp.Build()
		e.SPkgs[plist[i].PkgPath] = sp
	}
	return e.resolve()
}

func (e *Engine) mapGenErr(err error) error {
	// annotate errors in generated files with the contract clause they come from
	s := err.Error()
	var out []string
	for _, ln := range strings.Split(s, "\n") {
		out = append(out, ln)
		for path, src := range e.GenSrc {
			if i := strings.Index(ln, path+":"); i >= 0 {
				rest := ln[i+len(path)+1:]
				var lno int
				fmt.Sscanf(rest, "%d", &lno)
				lines := strings.Split(src, "\n")
				for j := lno - 1; j >= 0 && j < len(lines); j-- {
					if strings.HasPrefix(lines[j], "// from ") {
						out = append(out, "      "+lines[j][3:])
						break
					}
				}
			}
		}
	}
	return fmt.Errorf("%s", strings.Join(out, "\n"))
}

// ---------- name resolution ----------

func (e *Engine) findPkgByName(name string) *types.Package {
	// our packages first
	for path, p := range e.Pkgs {
		if p.Types.Name() == name || path == name {
			return p.Types
		}
	}
	// imports of our packages
	seen := map[string]bool{}
	var found *types.Package
	var visit func(p *types.Package)
	visit = func(p *types.Package) {
		if seen[p.Path()] {
			return
		}
		seen[p.Path()] = true
		internal := strings.Contains("/"+p.Path()+"/", "/internal/") && !ourPkg(p.Path())
		if (p.Name() == name || p.Path() == name) && found == nil && !internal {
			found = p
		}
		for _, q := range p.Imports() {
			visit(q)
		}
	}
	paths := []string{}
	for path := range e.Pkgs {
		paths = append(paths, path)
	}
	sort.Strings(paths)
	for _, path := range paths {
		visit(e.Pkgs[path].Types)
	}
	return found
}

// resolveTarget finds the types.Func named by a block: forms
//
//	f | (*T).m | (T).m | pkg.f | (*pkg.T).m | (pkg.T).m
func (e *Engine) resolveTarget(name string) (*types.Func, error) {
	home := e.Pkgs[MainPkg].Types
	lookupType := func(q string) (types.Type, error) {
		pkg := home
		tn := q
		if i := strings.LastIndex(q, "."); i >= 0 {
			pkg = e.findPkgByName(q[:i])
			tn = q[i+1:]
			if pkg == nil {
				return nil, fmt.Errorf("unknown package %q", q[:i])
			}
		}
		o := pkg.Scope().Lookup(tn)
		if o == nil && !strings.Contains(q, ".") {
			o = types.Universe.Lookup(tn)
		}
		if o == nil {
			return nil, fmt.Errorf("unknown type %q", q)
		}
		return o.Type(), nil
	}
	if strings.HasPrefix(name, "(") {
		j := strings.Index(name, ").")
		if j < 0 {
			return nil, fmt.Errorf("malformed method name %q", name)
		}
		recv := name[1:j]
		meth := name[j+2:]
		ptr := strings.HasPrefix(recv, "*")
		recv = strings.TrimPrefix(recv, "*")
		t, err := lookupType(recv)
		if err != nil {
			return nil, err
		}
		if ptr {
			t = types.NewPointer(t)
		}
		var pkgOf *types.Package
		if n, ok := types.Unalias(t).(*types.Named); ok {
			pkgOf = n.Obj().Pkg()
		} else if p, ok := t.(*types.Pointer); ok {
			if n, ok := types.Unalias(p.Elem()).(*types.Named); ok {
				pkgOf = n.Obj().Pkg()
			}
		}
		obj, _, _ := types.LookupFieldOrMethod(t, true, pkgOf, meth)
		f, ok := obj.(*types.Func)
		if !ok {
			return nil, fmt.Errorf("no method %s on %s", meth, recv)
		}
		return f, nil
	}
	pkg := home
	fn := name
	if i := strings.LastIndex(name, "."); i >= 0 {
		pkg = e.findPkgByName(name[:i])
		fn = name[i+1:]
		if pkg == nil {
			return nil, fmt.Errorf("unknown package %q", name[:i])
		}
	}
	o := pkg.Scope().Lookup(fn)
	f, ok := o.(*types.Func)
	if !ok {
		return nil, fmt.Errorf("no function %q", name)
	}
	return f, nil
}

// findClosure locates the n-th function literal (source order) of the function named
// parent and the variables of the enclosing function it captures (in order of first use).
func (e *Engine) findClosure(name string) (parent *types.Func, ord int, lit *ast.FuncLit, info *types.Info, captured []*types.Var, err error) {
	i := strings.LastIndex(name, "$")
	if _, err = fmt.Sscanf(name[i+1:], "%d", &ord); err != nil || ord < 1 {
		return nil, 0, nil, nil, nil, fmt.Errorf("malformed closure name %q", name)
	}
	parent, err = e.resolveTarget(name[:i])
	if err != nil {
		return
	}
	p := e.Pkgs[parent.Pkg().Path()]
	if p == nil {
		return nil, 0, nil, nil, nil, fmt.Errorf("no syntax for %s", name)
	}
	info = p.TypesInfo
	for _, f := range p.Syntax {
		for _, d := range f.Decls {
			fd, ok := d.(*ast.FuncDecl)
			if !ok || fd.Name.Pos() != parent.Pos() || fd.Body == nil {
				continue
			}
			k := 0
			ast.Inspect(fd.Body, func(nd ast.Node) bool {
				if fl, ok := nd.(*ast.FuncLit); ok {
					k++
					if k == ord {
						lit = fl
					}
				}
				return true
			})
		}
	}
	if lit == nil {
		return nil, 0, nil, nil, nil, fmt.Errorf("function %s has no function literal number %d", name[:i], ord)
	}
	seen := map[*types.Var]bool{}
	ast.Inspect(lit.Body, func(nd ast.Node) bool {
		id, ok := nd.(*ast.Ident)
		if !ok {
			return true
		}
		v, ok := info.Uses[id].(*types.Var)
		if !ok || v.IsField() || seen[v] {
			return true
		}
		if v.Pos() >= lit.Pos() && v.Pos() < lit.End() {
			return true // declared inside the literal
		}
		if v.Parent() == nil || v.Parent() == v.Pkg().Scope() || v.Parent() == types.Universe {
			return true // package-level
		}
		seen[v] = true
		captured = append(captured, v)
		return true
	})
	return
}

// ---------- generation of clause functions ----------

type genFile struct {
	pkgName string
	imports map[string]string // path -> name
	body    strings.Builder
}

func (g *genFile) qual(home *types.Package) types.Qualifier {
	return func(p *types.Package) string {
		if p == home {
			return ""
		}
		g.imports[p.Path()] = p.Name()
		return p.Name()
	}
}

func ourPkg(path string) bool { return strings.HasPrefix(path, MainPkg) }

func (e *Engine) generate() error {
	gens := map[string]*genFile{} // by home package path
	getGen := func(p *types.Package) *genFile {
		g := gens[p.Path()]
		if g == nil {
			g = &genFile{pkgName: p.Name(), imports: map[string]string{}}
			gens[p.Path()] = g
		}
		return g
	}
	mainT := e.Pkgs[MainPkg].Types
	n := 0
	for _, b := range e.Blocks {
		if b.Kind == "noeffect" {
			e.NoEffect[b.Name] = strings.Join(b.Notes, " ")
			continue
		}
		if b.Kind == "guard" {
			if e.Guards == nil {
				e.Guards = map[string]*contract.Block{}
			}
			e.Guards[b.Name] = b
			continue
		}
		fc := &FnContract{B: b, Loops: map[int]*LoopContract{}}
		var home *types.Package = mainT
		var sig *types.Signature
		var decl *ast.FuncDecl
		var info *types.Info
		if b.Kind == "lemma" {
			fc.Lemma = true
			fc.Key = "lemma:" + b.Name
			g := getGen(home)
			// lemma parameters: textual; types must be nameable in the main package
			plist := b.Params
			var pn []string
			for _, p := range strings.Split(plist, ",") {
				f := strings.Fields(strings.TrimSpace(p))
				if len(f) >= 1 && f[0] != "" {
					pn = append(pn, f[0])
				}
			}
			// Go allows "a, b int": handled because we pass the list through verbatim
			for _, c := range b.Clauses {
				if c.Kind != contract.Requires && c.Kind != contract.Ensures {
					return fmt.Errorf("%s:%d: lemma supports requires/ensures only", c.File, c.Line)
				}
				n++
				src, _, err := contract.RewriteExpr(c.Text, map[string]bool{})
				if err != nil {
					return fmt.Errorf("%s:%d: %v", c.File, c.Line, err)
				}
				c.GenName = fmt.Sprintf("gvcC_%d", n)
				fmt.Fprintf(&g.body, "// from %s:%d lemma %s [%s]\nfunc %s(%s) bool { return %s }\n\n", shortPos(c.File), c.Line, b.Name, c.Label, c.GenName, plist, src)
				cf := &ClauseFn{C: c, Name: c.GenName}
				if c.Kind == contract.Requires {
					fc.Requires = append(fc.Requires, cf)
				} else {
					fc.Ensures = append(fc.Ensures, cf)
				}
			}
			fc.PNames = pn
			e.Contracts[fc.Key] = fc
			continue
		}
		var captured []*types.Var
		var obj *types.Func
		if strings.Contains(b.Name, "$") {
			parent, ord, lit, linfo, capt, err := e.findClosure(b.Name)
			if err != nil {
				return fmt.Errorf("%s:%d: contract target %q: %v", b.File, b.Line, b.Name, err)
			}
			fc.ClosureOf, fc.ClosureOrd = parent, ord
			fc.Key = fmt.Sprintf("%s$%d", e.objKey(parent), ord)
			sig = linfo.TypeOf(lit).(*types.Signature)
			info = linfo
			captured = capt
			obj = parent // for the home package only
		} else {
			var err error
			obj, err = e.resolveTarget(b.Name)
			if err != nil {
				return fmt.Errorf("%s:%d: contract target %q: %v", b.File, b.Line, b.Name, err)
			}
			fc.Obj = obj
			fc.Key = e.objKey(obj)
			sig = obj.Type().(*types.Signature)
		}
		if obj.Pkg() != nil && ourPkg(obj.Pkg().Path()) && obj.Pkg().Path() != MainPkg {
			// unexported things of wsjson / internal packages live in their own package
			if !obj.Exported() || strings.HasSuffix(obj.Pkg().Path(), "/wsjson") {
				home = obj.Pkg()
			}
		}
		if fc.ClosureOf != nil {
			// loops inside closures are not supported (decl stays nil)
		} else if obj.Pkg() == nil {
			// universe (error.Error)
		} else if p := e.Pkgs[obj.Pkg().Path()]; p != nil {
			info = p.TypesInfo
			for _, f := range p.Syntax {
				for _, d := range f.Decls {
					if fd, ok := d.(*ast.FuncDecl); ok && fd.Name.Pos() == obj.Pos() {
						decl = fd
					}
				}
			}
		}
		g := getGen(home)
		q := g.qual(home)
		// parameter / result naming
		type pv struct {
			name string
			t    types.Type
			v    *types.Var
		}
		var ps, rs []pv
		for _, cv := range captured {
			ps = append(ps, pv{cv.Name(), cv.Type(), cv})
			fc.Captured = append(fc.Captured, cv.Name())
		}
		if r := sig.Recv(); r != nil {
			nm := r.Name()
			if nm == "" || nm == "_" {
				nm = "recv"
			}
			ps = append(ps, pv{nm, r.Type(), r})
		}
		for i := 0; i < sig.Params().Len(); i++ {
			p := sig.Params().At(i)
			nm := p.Name()
			if nm == "" || nm == "_" {
				nm = fmt.Sprintf("arg%d", i)
			}
			t := p.Type()
			ps = append(ps, pv{nm, t, p})
		}
		for i := 0; i < sig.Results().Len(); i++ {
			r := sig.Results().At(i)
			nm := r.Name()
			if nm == "" || nm == "_" {
				if sig.Results().Len() == 1 {
					nm = "result"
				} else {
					nm = fmt.Sprintf("result%d", i)
				}
			}
			rs = append(rs, pv{nm, r.Type(), r})
		}
		for _, p := range ps {
			fc.PNames = append(fc.PNames, p.name)
			fc.PTypes = append(fc.PTypes, p.t)
		}
		for _, r := range rs {
			fc.RNames = append(fc.RNames, r.name)
			fc.RTypes = append(fc.RTypes, r.t)
		}
		pnames := map[string]bool{}
		for _, p := range ps {
			pnames[p.name] = true
		}
		tstr := func(t types.Type) (string, error) {
			bad := ""
			s := types.TypeString(t, func(p *types.Package) string {
				return q(p)
			})
			// unexported types of foreign packages cannot be named
			var chk func(t types.Type)
			seen := map[types.Type]bool{}
			chk = func(t types.Type) {
				if seen[t] {
					return
				}
				seen[t] = true
				switch x := t.(type) {
				case *types.Named:
					if x.Obj().Pkg() != nil && x.Obj().Pkg() != home && !x.Obj().Exported() {
						bad = x.Obj().Name()
					}
				case *types.Pointer:
					chk(x.Elem())
				case *types.Slice:
					chk(x.Elem())
				}
			}
			chk(t)
			if bad != "" {
				return "", fmt.Errorf("type %s not nameable from package %s", bad, home.Name())
			}
			return s, nil
		}
		variadicFix := func(i int, s string) string {
			// a variadic parameter is a slice inside the clause function
			return s
		}
		_ = variadicFix
		// loops of the function (source order)
		var loops []ast.Stmt
		if decl != nil && decl.Body != nil {
			ast.Inspect(decl.Body, func(nd ast.Node) bool {
				switch x := nd.(type) {
				case *ast.FuncLit:
					return false
				case *ast.ForStmt:
					loops = append(loops, x)
				case *ast.RangeStmt:
					loops = append(loops, x)
				}
				return true
			})
		}
		for _, c := range b.Clauses {
			n++
			c.GenName = fmt.Sprintf("gvcC_%d", n)
			cf := &ClauseFn{C: c, Name: c.GenName}
			hdr := fmt.Sprintf("// from %s:%d %s %s [%s]\n", shortPos(c.File), c.Line, b.Name, c.Kind, c.Label)
			addParam := func(sb *strings.Builder, name string, t types.Type) error {
				ts, err := tstr(t)
				if err != nil {
					return fmt.Errorf("%s:%d: %v", c.File, c.Line, err)
				}
				if sb.Len() > 0 {
					sb.WriteString(", ")
				}
				sb.WriteString(name + " " + ts)
				return nil
			}
			switch c.Kind {
			case contract.Requires, contract.Ensures:
				src, olds, err := contract.RewriteExpr(c.Text, pnames)
				if err != nil {
					return fmt.Errorf("%s:%d: %v", c.File, c.Line, err)
				}
				var sb strings.Builder
				for i, p := range ps {
					if err := addParam(&sb, p.name, p.t); err != nil {
						return err
					}
					cf.Vars = append(cf.Vars, VarRef{Name: p.name, Kind: "param", Idx: i, Type: p.t})
				}
				if c.Kind == contract.Ensures {
					for i, r := range rs {
						if err := addParam(&sb, r.name, r.t); err != nil {
							return err
						}
						cf.Vars = append(cf.Vars, VarRef{Name: r.name, Kind: "result", Idx: i, Type: r.t})
					}
				}
				sort.Strings(olds)
				for _, o := range olds {
					for i, p := range ps {
						if p.name == o {
							if err := addParam(&sb, o+"__old", p.t); err != nil {
								return err
							}
							cf.Vars = append(cf.Vars, VarRef{Name: o + "__old", Kind: "old", Idx: i, Type: p.t})
						}
					}
				}
				fmt.Fprintf(&g.body, "%sfunc %s(%s) bool { return %s }\n\n", hdr, c.GenName, sb.String(), src)
				if c.Kind == contract.Requires {
					fc.Requires = append(fc.Requires, cf)
				} else {
					fc.Ensures = append(fc.Ensures, cf)
				}
			case contract.Input:
				src, _, err := contract.RewriteExpr(c.Text, pnames)
				if err != nil {
					return fmt.Errorf("%s:%d: %v", c.File, c.Line, err)
				}
				var sb strings.Builder
				for i, p := range ps {
					if err := addParam(&sb, p.name, p.t); err != nil {
						return err
					}
					cf.Vars = append(cf.Vars, VarRef{Name: p.name, Kind: "param", Idx: i, Type: p.t})
				}
				fmt.Fprintf(&g.body, "%sfunc %s(%s) uint64 { return uint64(%s) }\n\n", hdr, c.GenName, sb.String(), src)
				fc.Inputs = append(fc.Inputs, cf)
			case contract.Modifies, contract.LoopModifies:
				items, err := contract.ParseModifies(c.Text)
				if err != nil {
					return fmt.Errorf("%s:%d: %v", c.File, c.Line, err)
				}
				var sb strings.Builder
				if c.Kind == contract.Modifies {
					for i, p := range ps {
						if err := addParam(&sb, p.name, p.t); err != nil {
							return err
						}
						cf.Vars = append(cf.Vars, VarRef{Name: p.name, Kind: "param", Idx: i, Type: p.t})
					}
				}
				if c.Kind == contract.LoopModifies {
					// locals referenced by the items
					if decl == nil || c.Loop > len(loops) {
						return fmt.Errorf("%s:%d: loop %d not found in %s", c.File, c.Line, c.Loop, b.Name)
					}
					ids := map[string]bool{}
					for _, it := range items {
						for k := range contract.Idents(it.Expr) {
							ids[k] = true
						}
					}
					// names (parameters included: they are mutable) denote the values at the loop head
					if err := e.addLocals(&sb, cf, ids, pnames, loops[c.Loop-1], info, addParam, false); err != nil {
						return err
					}
				}
				var body strings.Builder
				for _, it := range items {
					switch it.Kind {
					case "field":
						fmt.Fprintf(&body, "gvcMod(&%s); ", it.Expr)
					case "all":
						fmt.Fprintf(&body, "gvcModAll(%s); ", it.Expr)
					case "bytes":
						fmt.Fprintf(&body, "gvcModElems(%s); ", it.Expr)
					case "map":
						fmt.Fprintf(&body, "gvcModMap(%s); ", it.Expr)
					case "chan":
						fmt.Fprintf(&body, "gvcModChan(%s); ", it.Expr)
					case "call":
						fmt.Fprintf(&body, "%s; ", it.Expr)
					}
				}
				fmt.Fprintf(&g.body, "%sfunc %s(%s) { %s}\n\n", hdr, c.GenName, sb.String(), body.String())
				if c.Kind == contract.Modifies {
					fc.Modifies = append(fc.Modifies, cf)
				} else {
					lc := fc.loop(c.Loop)
					lc.Modifies = cf
				}
			case contract.Invariant, contract.Decreases:
				if decl == nil || c.Loop > len(loops) {
					return fmt.Errorf("%s:%d: loop %d not found in %s (function has %d loops)", c.File, c.Line, c.Loop, b.Name, len(loops))
				}
				src, olds, err := contract.RewriteExpr(c.Text, pnames)
				if err != nil {
					return fmt.Errorf("%s:%d: %v", c.File, c.Line, err)
				}
				var sb strings.Builder
				ids := contract.Idents(strings.ReplaceAll(src, "__old", "__old"))
				if err := e.addLocals(&sb, cf, ids, pnames, loops[c.Loop-1], info, addParam, false); err != nil {
					return err
				}
				sort.Strings(olds)
				for _, o := range olds {
					for i, p := range ps {
						if p.name == o {
							if err := addParam(&sb, o+"__old", p.t); err != nil {
								return err
							}
							cf.Vars = append(cf.Vars, VarRef{Name: o + "__old", Kind: "old", Idx: i, Type: p.t})
						}
					}
				}
				ret := "bool"
				if c.Kind == contract.Decreases {
					ret = "int"
				}
				fmt.Fprintf(&g.body, "%sfunc %s(%s) %s { return %s }\n\n", hdr, c.GenName, sb.String(), ret, src)
				lc := fc.loop(c.Loop)
				if c.Kind == contract.Invariant {
					lc.Invariants = append(lc.Invariants, cf)
				} else {
					lc.Decreases = cf
				}
			}
		}
		if old, dup := e.Contracts[fc.Key]; dup {
			return fmt.Errorf("%s:%d: duplicate contract for %s (first at %s:%d)", b.File, b.Line, fc.Key, old.B.File, old.B.Line)
		}
		e.Contracts[fc.Key] = fc
	}
	// packages referenced by name inside clause expressions
	pkgRef := regexp.MustCompile(`\b([a-z][a-z0-9]*)\.[A-Za-z_]`)
	for _, g := range gens {
		body := g.body.String()
		for _, m := range pkgRef.FindAllStringSubmatch(body, -1) {
			nm := m[1]
			if p := e.findPkgByName(nm); p != nil && p.Name() == nm && p.Name() != g.pkgName {
				if _, ok := g.imports[p.Path()]; !ok {
					// only if no local identifier shadows it in a trivial way: accept
					g.imports[p.Path()] = p.Name()
				}
			}
		}
	}
	for path, g := range gens {
		var sb strings.Builder
		sb.WriteString("//go:build verif\n\npackage " + g.pkgName + "\n\n")
		var ips []string
		for ip := range g.imports {
			ips = append(ips, ip)
		}
		sort.Strings(ips)
		for _, ip := range ips {
			fmt.Fprintf(&sb, "import %s %q\n", g.imports[ip], ip)
		}
		// keep imports used
		for _, ip := range ips {
			fmt.Fprintf(&sb, "var _ = %s.%s\n", g.imports[ip], e.anyExported(ip))
		}
		sb.WriteString("\n")
		sb.WriteString(g.body.String())
		dir := e.Cfg.RepoDir
		if path != MainPkg {
			dir = filepath.Join(e.Cfg.RepoDir, strings.TrimPrefix(path, MainPkg+"/"))
		}
		fn := filepath.Join(dir, "gvcgen_contracts_verif.go")
		e.Overlay[fn] = []byte(sb.String())
		e.GenSrc[fn] = sb.String()
	}
	return nil
}

func (fc *FnContract) loop(n int) *LoopContract {
	lc := fc.Loops[n]
	if lc == nil {
		lc = &LoopContract{}
		fc.Loops[n] = lc
	}
	return lc
}

// anyExported returns the name of some exported object of the package (to keep the import used).
func (e *Engine) anyExported(path string) string {
	p := e.findPkgByName(path)
	if p == nil {
		return "X"
	}
	names := p.Scope().Names()
	for _, n := range names {
		o := p.Scope().Lookup(n)
		if !o.Exported() {
			continue
		}
		switch o.(type) {
		case *types.Func, *types.Var, *types.Const:
			return n
		}
	}
	for _, n := range names {
		if o := p.Scope().Lookup(n); o.Exported() {
			if _, ok := o.(*types.TypeName); ok {
				return n + "(nil)" // will not compile for non-pointer types; rare
			}
		}
	}
	return "X"
}

// addLocals appends the local variables (current values) an invariant refers to.
func (e *Engine) addLocals(sb *strings.Builder, cf *ClauseFn, ids map[string]bool, pnames map[string]bool, loop ast.Stmt, info *types.Info,
	addParam func(*strings.Builder, string, types.Type) error, skipParams bool) error {
	var scope *types.Scope
	var pos token.Pos
	switch x := loop.(type) {
	case *ast.ForStmt:
		scope = info.Scopes[x]
		pos = x.Body.Lbrace
	case *ast.RangeStmt:
		scope = info.Scopes[x]
		pos = x.Body.Lbrace
	}
	var names []string
	for k := range ids {
		names = append(names, k)
	}
	sort.Strings(names)
	for _, nm := range names {
		if strings.HasSuffix(nm, "__old") {
			continue
		}
		if nm == "rangeindex" {
			if err := addParam(sb, nm, types.Typ[types.Int]); err != nil {
				return err
			}
			cf.Vars = append(cf.Vars, VarRef{Name: nm, Kind: "rangeindex", Type: types.Typ[types.Int]})
			continue
		}
		if scope == nil {
			continue
		}
		_, obj := scope.LookupParent(nm, pos)
		v, ok := obj.(*types.Var)
		if !ok || v.Parent() == nil || v.Parent() == v.Pkg().Scope() || v.Parent() == types.Universe {
			continue
		}
		if skipParams && pnames[nm] {
			continue
		}
		if err := addParam(sb, nm, v.Type()); err != nil {
			return err
		}
		cf.Vars = append(cf.Vars, VarRef{Name: nm, Kind: "local", Obj: v, Type: v.Type()})
	}
	return nil
}

// objKey normalises a function object name: pkgname.f or (*pkgname.T).m; functions
// of the main package carry no package prefix.
func (e *Engine) objKey(f *types.Func) string {
	q := func(p *types.Package) string {
		if p.Path() == MainPkg {
			return ""
		}
		return p.Name()
	}
	sig := f.Type().(*types.Signature)
	if r := sig.Recv(); r != nil {
		rt := r.Type()
		if _, isIface := rt.Underlying().(*types.Interface); isIface {
			// interface method: find the named interface if any
			return "(" + types.TypeString(rt, q) + ")." + f.Name()
		}
		return "(" + types.TypeString(rt, q) + ")." + f.Name()
	}
	if f.Pkg() != nil && f.Pkg().Path() != MainPkg {
		return f.Pkg().Name() + "." + f.Name()
	}
	return f.Name()
}

func (e *Engine) fnKey(fn *ssa.Function) string {
	if o, ok := fn.Object().(*types.Func); ok && o != nil {
		return e.objKey(o)
	}
	// closures etc.
	s := fn.RelString(e.Pkgs[MainPkg].Types)
	return s
}

// resolve binds contracts to SSA functions and scans spec-file markers.
func (e *Engine) resolve() error {
	for key, fc := range e.Contracts {
		bind := func(cf *ClauseFn) error {
			home := e.SPkgs[MainPkg]
			ho := fc.Obj
			if ho == nil {
				ho = fc.ClosureOf
			}
			if ho != nil && ho.Pkg() != nil && e.SPkgs[ho.Pkg().Path()] != nil {
				if f := e.SPkgs[ho.Pkg().Path()].Func(cf.Name); f != nil {
					cf.Fn = f
					return nil
				}
			}
			if f := home.Func(cf.Name); f != nil {
				cf.Fn = f
				return nil
			}
			return fmt.Errorf("generated clause %s for %s not found", cf.Name, key)
		}
		var all []*ClauseFn
		all = append(all, fc.Requires...)
		all = append(all, fc.Ensures...)
		all = append(all, fc.Modifies...)
		all = append(all, fc.Inputs...)
		for _, lc := range fc.Loops {
			all = append(all, lc.Invariants...)
			if lc.Decreases != nil {
				all = append(all, lc.Decreases)
			}
			if lc.Modifies != nil {
				all = append(all, lc.Modifies)
			}
		}
		for _, cf := range all {
			if err := bind(cf); err != nil {
				return err
			}
		}
		if fc.ClosureOf != nil {
			parent, ord, lit, linfo, capt, err := e.findClosure(fc.B.Name)
			if err != nil {
				return fmt.Errorf("%s:%d: %v", fc.B.File, fc.B.Line, err)
			}
			fc.ClosureOf = parent
			sig := linfo.TypeOf(lit).(*types.Signature)
			fc.PTypes, fc.RTypes = nil, nil
			for _, cv := range capt {
				fc.PTypes = append(fc.PTypes, cv.Type())
			}
			for i := 0; i < sig.Params().Len(); i++ {
				fc.PTypes = append(fc.PTypes, sig.Params().At(i).Type())
			}
			for i := 0; i < sig.Results().Len(); i++ {
				fc.RTypes = append(fc.RTypes, sig.Results().At(i).Type())
			}
			pf := e.Prog.FuncValue(parent)
			if pf == nil {
				return fmt.Errorf("%s:%d: no SSA for %s", fc.B.File, fc.B.Line, parent.Name())
			}
			var found *ssa.Function
			for _, af := range pf.AnonFuncs {
				if af.Pos() == lit.Type.Func {
					found = af
				}
			}
			if found == nil && ord-1 < len(pf.AnonFuncs) {
				found = pf.AnonFuncs[ord-1]
			}
			if found == nil {
				return fmt.Errorf("%s:%d: closure %s not found in SSA", fc.B.File, fc.B.Line, fc.B.Name)
			}
			fc.Fn = found
			e.ByFn[found] = fc
			for _, cf := range all {
				for i := range cf.Vars {
					if cf.Fn != nil && i < cf.Fn.Signature.Params().Len() {
						cf.Vars[i].Type = cf.Fn.Signature.Params().At(i).Type()
					}
				}
			}
		}
		if fc.Obj != nil {
			// re-resolve against the phase-2 type universe
			obj2, err := e.resolveTarget(fc.B.Name)
			if err != nil {
				return fmt.Errorf("%s:%d: %v", fc.B.File, fc.B.Line, err)
			}
			fc.Obj = obj2
			sig := obj2.Type().(*types.Signature)
			fc.PTypes, fc.RTypes = nil, nil
			if r := sig.Recv(); r != nil {
				fc.PTypes = append(fc.PTypes, r.Type())
			}
			for i := 0; i < sig.Params().Len(); i++ {
				fc.PTypes = append(fc.PTypes, sig.Params().At(i).Type())
			}
			for i := 0; i < sig.Results().Len(); i++ {
				fc.RTypes = append(fc.RTypes, sig.Results().At(i).Type())
			}
			if fn := e.Prog.FuncValue(obj2); fn != nil {
				fc.Fn = fn
				e.ByFn[fn] = fc
			}
			// locals of loop clauses
			var loops []ast.Stmt
			var info *types.Info
			if obj2.Pkg() == nil {
			} else if p := e.Pkgs[obj2.Pkg().Path()]; p != nil {
				info = p.TypesInfo
				for _, f := range p.Syntax {
					for _, d := range f.Decls {
						if fd, ok := d.(*ast.FuncDecl); ok && fd.Name.Pos() == obj2.Pos() && fd.Body != nil {
							ast.Inspect(fd.Body, func(nd ast.Node) bool {
								switch x := nd.(type) {
								case *ast.FuncLit:
									return false
								case *ast.ForStmt:
									loops = append(loops, x)
								case *ast.RangeStmt:
									loops = append(loops, x)
								}
								return true
							})
						}
					}
				}
			}
			for _, cf := range all {
				for i := range cf.Vars {
					v := &cf.Vars[i]
					// types from the generated function's own signature
					if cf.Fn != nil && i < cf.Fn.Signature.Params().Len() {
						v.Type = cf.Fn.Signature.Params().At(i).Type()
					}
					if v.Kind != "local" {
						continue
					}
					if cf.C.Loop < 1 || cf.C.Loop > len(loops) || info == nil {
						return fmt.Errorf("%s:%d: loop %d not found", cf.C.File, cf.C.Line, cf.C.Loop)
					}
					var scope *types.Scope
					var pos token.Pos
					switch x := loops[cf.C.Loop-1].(type) {
					case *ast.ForStmt:
						scope, pos = info.Scopes[x], x.Body.Lbrace
					case *ast.RangeStmt:
						scope, pos = info.Scopes[x], x.Body.Lbrace
					}
					_, o := scope.LookupParent(v.Name, pos)
					vo, ok := o.(*types.Var)
					if !ok {
						return fmt.Errorf("%s:%d: local %s not found", cf.C.File, cf.C.Line, v.Name)
					}
					v.Obj = vo
				}
			}
		}
	}
	// spec markers
	for path, p := range e.Pkgs {
		for _, f := range p.Syntax {
			for _, d := range f.Decls {
				fd, ok := d.(*ast.FuncDecl)
				if !ok || fd.Doc == nil {
					continue
				}
				txt := fd.Doc.Text()
				o, _ := p.TypesInfo.Defs[fd.Name].(*types.Func)
				if o == nil {
					continue
				}
				fn := e.Prog.FuncValue(o)
				if fn == nil {
					continue
				}
				_ = path
				for _, c := range fd.Doc.List {
					if strings.HasPrefix(c.Text, "//gvc:uninterpreted") {
						e.Uninterp[fn] = true
					}
					if strings.HasPrefix(c.Text, "//gvc:opaque") {
						e.Opaque[fn] = true
					}
					if strings.HasPrefix(c.Text, "//gvc:ghost") {
						e.GhostAcc[fn] = true
					}
				}
				_ = txt
			}
		}
	}
	return nil
}

func (e *Engine) toolErr(format string, a ...interface{}) {
	msg := fmt.Sprintf(format, a...)
	for _, x := range e.Errors {
		if x == msg {
			return
		}
	}
	e.Errors = append(e.Errors, msg)
}

// kindConst returns a distinct constant per name (type tags, region kinds, ghost
// accessor kinds): distinctness is by construction, not by an axiom.
func (e *Engine) kindConst(name string) *smt.Term {
	i, ok := e.kindIdx[name]
	if !ok {
		i = len(e.kindIdx) + 1
		e.kindIdx[name] = i
	}
	return e.C.BVC(64, uint64(i))
}
