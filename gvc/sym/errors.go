package sym

import (
	"go/token"
	"go/types"
	"strings"

	"golang.org/x/tools/go/ssa"

	"gvc/smt"
)

// Error model. An error value is an opaque reference with observers
//
//	errIs(e, t)      = errors.Is(e, t)
//	errIsCE(e)       = errors.As(e, *CloseError) succeeds
//	errCECode(e), errCEReason(e) = the CloseError found by errors.As
//
// fmt.Errorf / errors.New create fresh non-nil references; a %w operand passes its
// observers on. The sentinels (error-typed package variables of other packages that
// the library mentions) are distinct non-nil constants.

func (e *Engine) errIs(st *State, a, b *smt.Term) *smt.Term {
	c := e.C
	r := c.App("errIs", smt.Bool, a, b)
	if !st.Marked[r] {
		st.Marked[r] = true
		z := e.i64(0)
		st.Assume(c.Implies(c.And(c.Eq(a, b), c.Not(c.Eq(a, z))), r))
		st.Assume(c.Implies(c.Eq(a, z), c.Not(r)))
	}
	return r
}

func (e *Engine) errIsCE(st *State, a *smt.Term) *smt.Term {
	c := e.C
	r := c.App("errIsCE", smt.Bool, a)
	if !st.Marked[r] {
		st.Marked[r] = true
		st.Assume(c.Implies(c.Eq(a, e.i64(0)), c.Not(r)))
	}
	return r
}

func (e *Engine) errCECode(a *smt.Term) *smt.Term   { return e.C.App("errCECode", smt.BV64, a) }
func (e *Engine) errCEReason(a *smt.Term) *smt.Term { return e.C.App("errCEReason", smt.Str, a) }

// sentinels: error-typed globals of foreign packages referenced by the loaded packages.
func (e *Engine) sentinels() []*smt.Term {
	if e.errSentinels != nil {
		return e.errSentinels
	}
	seen := map[string]bool{}
	for path, sp := range e.SPkgs {
		if !ourPkg(path) {
			continue
		}
		for _, m := range sp.Members {
			fn, ok := m.(*ssa.Function)
			if !ok {
				continue
			}
			var visit func(f *ssa.Function)
			visit = func(f *ssa.Function) {
				for _, b := range f.Blocks {
					for _, in := range b.Instrs {
						for _, op := range in.Operands(nil) {
							if g, ok := (*op).(*ssa.Global); ok && g.Pkg != nil && !ourPkg(g.Pkg.Pkg.Path()) {
								if isErrorType(g.Type().(*types.Pointer).Elem()) {
									seen[globalKey(g)] = true
								}
							}
						}
					}
				}
				for _, af := range f.AnonFuncs {
					visit(af)
				}
			}
			visit(fn)
		}
		// methods
		for _, m := range sp.Members {
			if t, ok := m.(*ssa.Type); ok {
				for _, tt := range []types.Type{t.Type(), types.NewPointer(t.Type())} {
					ms := e.Prog.MethodSets.MethodSet(tt)
					for i := 0; i < ms.Len(); i++ {
						if f := e.Prog.MethodValue(ms.At(i)); f != nil {
							for _, b := range f.Blocks {
								for _, in := range b.Instrs {
									for _, op := range in.Operands(nil) {
										if g, ok := (*op).(*ssa.Global); ok && g.Pkg != nil && !ourPkg(g.Pkg.Pkg.Path()) {
											if isErrorType(g.Type().(*types.Pointer).Elem()) {
												seen[globalKey(g)] = true
											}
										}
									}
								}
							}
							for _, af := range f.AnonFuncs {
								for _, b := range af.Blocks {
									for _, in := range b.Instrs {
										for _, op := range in.Operands(nil) {
											if g, ok := (*op).(*ssa.Global); ok && g.Pkg != nil && !ourPkg(g.Pkg.Pkg.Path()) {
												if isErrorType(g.Type().(*types.Pointer).Elem()) {
													seen[globalKey(g)] = true
												}
											}
										}
									}
								}
							}
						}
					}
				}
			}
		}
	}
	for _, extra := range []string{"io.EOF", "io.ErrUnexpectedEOF", "net.ErrClosed", "context.Canceled", "context.DeadlineExceeded"} {
		seen[extra] = true
	}
	var ks []string
	for k := range seen {
		ks = append(ks, k)
	}
	sortStrings(ks)
	for _, k := range ks {
		e.errSentinels = append(e.errSentinels, e.C.Var("g$"+k, smt.BV64))
	}
	return e.errSentinels
}

func sortStrings(ks []string) {
	for i := 0; i < len(ks); i++ {
		for j := i + 1; j < len(ks); j++ {
			if ks[j] < ks[i] {
				ks[i], ks[j] = ks[j], ks[i]
			}
		}
	}
}

func isErrorType(t types.Type) bool {
	n, ok := t.(*types.Named)
	return ok && n.Obj().Pkg() == nil && n.Obj().Name() == "error"
}

// sentinelAxioms: sentinels occurring in the query are non-nil, pairwise distinct,
// match only themselves and are not CloseErrors.
func (e *Engine) sentinelAxioms(ts []*smt.Term) []*smt.Term {
	c := e.C
	in := map[*smt.Term]bool{}
	for _, v := range smt.FreeVars(ts...) {
		if strings.HasPrefix(v.Name, "g$") && v.Sort == smt.BV64 {
			in[v] = true
		}
	}
	var out []*smt.Term
	ss := e.sentinels()
	for i, s := range ss {
		if !in[s] {
			continue
		}
		out = append(out, c.Not(c.Eq(s, e.i64(0))))
		out = append(out, c.Not(c.App("errIsCE", smt.Bool, s)))
		for j, t := range ss {
			if !in[t] {
				continue
			}
			if j > i {
				out = append(out, c.Not(c.Eq(s, t)))
			}
			if j != i {
				out = append(out, c.Not(c.App("errIs", smt.Bool, s, t)))
			} else {
				out = append(out, c.App("errIs", smt.Bool, s, s))
			}
		}
	}
	return out
}

// newError creates a fresh error; wrapped (may be nil) passes its observers on;
// ce (may be nil) makes it a CloseError.
func (e *Engine) newError(st *State, wrapped *smt.Term, ce *StructV, why string) *smt.Term {
	t := e.freshObj(st, "err$"+why)
	e.errFacts(st, t, wrapped, ce)
	return t
}

func (e *Engine) errFacts(st *State, t *smt.Term, wrapped *smt.Term, ce *StructV) {
	c := e.C
	for _, s := range e.sentinels() {
		st.Assume(c.Not(c.Eq(t, s)))
		is := c.App("errIs", smt.Bool, t, s)
		if wrapped != nil {
			st.Assume(c.Eq(is, e.errIs(st, wrapped, s)))
		} else {
			st.Assume(c.Not(is))
		}
	}
	switch {
	case ce != nil:
		st.Assume(c.App("errIsCE", smt.Bool, t))
		st.Assume(c.Eq(e.errCECode(t), ce.F[0].(*smt.Term)))
		st.Assume(c.Eq(e.errCEReason(t), ce.F[1].(*smt.Term)))
	case wrapped != nil:
		st.Assume(c.Eq(c.App("errIsCE", smt.Bool, t), e.errIsCE(st, wrapped)))
		st.Assume(c.Eq(e.errCECode(t), e.errCECode(wrapped)))
		st.Assume(c.Eq(e.errCEReason(t), e.errCEReason(wrapped)))
	default:
		st.Assume(c.Not(c.App("errIsCE", smt.Bool, t)))
	}
	st.Assume(c.App("errIs", smt.Bool, t, t))
}

// packElems returns the elements of an executor-level variadic pack.
func (e *Engine) packElems(st *State, v Value) []Value {
	switch s := v.(type) {
	case *SliceV:
		if s.Conc != nil {
			return st.Cells[s.Conc].(*ArrV).Elems[s.ConcLo:s.ConcHi]
		}
		if s.Len.IsConst() && s.Len.Val == 0 {
			return nil
		}
	case *smt.Term:
		if s.IsConst() && s.Val == 0 {
			return nil
		}
	}
	e.fail("variadic arguments are not an executor-level pack (%T)", v)
	return nil
}

// externIntrinsic: library functions with built-in semantics.
func (e *Engine) externIntrinsic(st *State, fr *Frame, fn *ssa.Function, args []Value, pos token.Pos) (Value, bool) {
	pkg := fnPkgPath(fn)
	name := fn.Name()
	full := pkg + "." + name
	if fn.Signature.Recv() != nil {
		return nil, false
	}
	c := e.C
	switch full {
	case "fmt.Errorf":
		format, ok := e.litOf(args[0].(*smt.Term))
		if !ok {
			e.fail("fmt.Errorf with a non-constant format at %s", e.pos(pos))
		}
		elems := e.packElems(st, args[1])
		var wrapped *smt.Term
		var ce *StructV
		ai := 0
		for i := 0; i < len(format); i++ {
			if format[i] != '%' {
				continue
			}
			i++
			for i < len(format) && strings.IndexByte("+-# 0123456789.", format[i]) >= 0 {
				i++
			}
			if i >= len(format) {
				break
			}
			if format[i] == '%' {
				continue
			}
			if format[i] == 'w' && ai < len(elems) {
				switch x := elems[ai].(type) {
				case *IfaceV:
					inner := x
					for {
						if n, ok := inner.V.(*IfaceV); ok {
							inner = n
							continue
						}
						break
					}
					if sv, ok := inner.V.(*StructV); ok && typeName(inner.T) == "websocket.CloseError" {
						ce = sv
					} else {
						wrapped = e.materialize(st, inner)
					}
				case *smt.Term:
					wrapped = x
				}
			}
			ai++
		}
		if wrapped != nil {
			// wrapping a nil error: errors.Is(…) is false for all targets, consistent with errIs(nil, _)
		}
		return e.newError(st, wrapped, ce, "Errorf@"+e.pos(pos)), true
	case "errors.New":
		return e.newError(st, nil, nil, "New@"+e.pos(pos)), true
	case "errors.Is":
		a := e.asTerm(st, args[0], nil)
		b := e.asTerm(st, args[1], nil)
		return e.errIs(st, a, b), true
	case "errors.As":
		a := e.asTerm(st, args[0], nil)
		// target: interface holding a pointer to a CloseError variable
		tv, ok := args[1].(*IfaceV)
		if !ok {
			e.fail("errors.As with an opaque target")
		}
		var target Value
		var pointee types.Type
		switch x := tv.V.(type) {
		case *PtrV:
			target, pointee = x, x.T
		case *smt.Term:
			if p, ok := under(tv.T).(*types.Pointer); ok {
				target, pointee = x, p.Elem()
			}
		}
		if target == nil || typeName(pointee) != "websocket.CloseError" {
			e.fail("errors.As target %s unsupported", tv.T)
		}
		ok2 := e.errIsCE(st, a)
		cur := e.load(st, target, pointee, "").(*StructV)
		nv := &StructV{T: pointee, F: []Value{c.Ite(ok2, e.errCECode(a), cur.F[0].(*smt.Term)), c.Ite(ok2, e.errCEReason(a), cur.F[1].(*smt.Term))}}
		e.store(st, target, pointee, nv, "")
		return ok2, true
	case "fmt.Sprintf", "fmt.Sprint":
		// opaque string result
		r := c.Fresh("sprintf", smt.Str)
		st.Assume(c.Sle(e.i64(0), e.slen(r)))
		return r, true
	case "log.Printf":
		return nil, true
	case "sync/atomic.LoadInt64", "sync/atomic.LoadInt32":
		// sequential model: an atomic load is a load (assumption A-seq)
		e.UsedAssumed[full+" (atomic load/store modelled as a plain load/store of the cell: sequential reasoning)"] = true
		return e.load(st, args[0], fn.Signature.Results().At(0).Type(), e.pos(pos)), true
	case "sync/atomic.AddInt32", "sync/atomic.AddInt64":
		e.UsedAssumed[full+" (atomic add modelled as a plain read-modify-write of the cell: sequential reasoning)"] = true
		rt := fn.Signature.Results().At(0).Type()
		cur := e.load(st, args[0], rt, e.pos(pos)).(*smt.Term)
		nv := c.Add(cur, args[1].(*smt.Term))
		e.store(st, args[0], rt, nv, e.pos(pos))
		return nv, true
	case "sync/atomic.StoreInt64", "sync/atomic.StoreInt32":
		e.UsedAssumed[full+" (atomic load/store modelled as a plain load/store of the cell: sequential reasoning)"] = true
		e.store(st, args[0], fn.Signature.Params().At(1).Type(), args[1], e.pos(pos))
		return nil, true
	}
	return nil, false
}
