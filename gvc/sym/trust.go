package sym

import "sort"

// GlobalAssumptions are listed in every evidence file.
var GlobalAssumptions = []string{
	"A-seq: sequential reasoning; no interference from other goroutines during a verified call (a go statement inside a function under contract is a failing obligation; channel operations have ghost semantics: closed is monotone and may be set by the environment between calls)",
	"A-partial: partial correctness; panics are obligations; termination only where a loop has a decreases clause",
	"A-mem: slice headers read from symbolic state are well-formed (0<=len<=cap<=2^56, 0<=off<=2^56); distinct allocations are disjoint regions",
	"A-alias: byte regions are identified by (region id, offset); a caller-supplied slice may alias another only if a contract says nothing to the contrary (aliasing is modelled, not assumed away, except where a requires clause states disjointness)",
	"A-ssa: golang.org/x/tools v0.29.0 go/ssa (naive form) lowers the source faithfully",
	"A-solver: an unsat answer of z3 4.8.12 / z3 5.1.0 / cvc5 1.0.3 is correct (thorough tier: two solvers must agree)",
	"A-gvc: the VC generator written for this task (gvc) implements Go's integer, slice and struct semantics correctly (checked by must-fail mutants, not proved)",
	"integers are exact bitvectors of their Go width: nothing is treated as mathematical",
	"assembly (mask_amd64.s, mask_arm64.s) and the js/wasm build are outside the verified text",
	"A-uf: uninterpreted and opaque spec functions (and contract-less functions of pure library packages) are functions of their flattened arguments (a slice is region, offset, length); the contents of slices passed to them are not modified between uses (frame obligations of the functions involved)",
	"A-trace: the call-trace ghost (gvcCalls / gvcCallArg / gvcCallRes / gvcCallSeq) records, per explored path, the calls of functions under contract made directly by the function under verification (not by its callees), calls of context.CancelFunc values, channel sends/receives and map updates/deletes; clauses over it that the engine decides by its own simplification are counted under engine_stats.obligations-trivial / obligations-by-literals and reach a solver only when they do not simplify to true",
	"A-atomic: sync/atomic loads, stores and adds are plain reads and writes of the cell (sequential model)",
	"A-guard: a 'guard' declaration turns every send on the named channel field into an obligation that this goroutine holds the named mutex of the same object",
	"A-ghost: ghost state attached to library objects (byte streams of bufio readers/writers, response-writer status, header values Set, request handed to the HTTP client) changes only as the assumed contracts of the library functions say",
}

// TrustedBase reports assumed contracts applied while generating obligations and
// the components trusted by every proof.
func (e *Engine) TrustedBase(targets []*FnContract) (assumed []string, trusted []string) {
	for k := range e.UsedAssumed {
		assumed = append(assumed, k)
	}
	sort.Strings(assumed)
	trusted = []string{"gvc VC generator (/verif/gvc)", "golang.org/x/tools v0.29.0 go/ssa, go/types", "z3 4.8.12, z3 5.1.0, cvc5 1.0.3",
		"spec functions in /verif/spec (written from RFC 6455 / RFC 7692, the oracle)"}
	for _, a := range assumed {
		trusted = append(trusted, "assumed contract: "+a)
	}
	return
}
