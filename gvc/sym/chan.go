package sym

import (
	"go/types"
	"strings"

	"golang.org/x/tools/go/ssa"

	"gvc/smt"
)

// Channel operations have ghost-event semantics (sequential view of one goroutine,
// with an environment that may close channels and take part in rendezvous):
//
//	chan.closed[ch]   the channel has been closed (monotone; the environment may close
//	                  any channel between two observations)
//	chan.mine[ch]     the element buffered in ch was put there by this goroutine
//	                  (the "mutex" channels of the library: cap 1, struct{})
//	chan.lastsent[ch] the last value this goroutine sent on ch (the armed context of
//	                  the readTimeout / writeTimeout channels)
//
// A receive is enabled iff closed || mine || (some sender is ready: unconstrained);
// a send is enabled iff !mine && (room or receiver ready: unconstrained).

func (e *Engine) chClosed(st *State) *smt.Term   { return e.heapArr(st, "chan.closed", smt.Bool) }
func (e *Engine) chMine(st *State) *smt.Term     { return e.heapArr(st, "chan.mine", smt.Bool) }
func (e *Engine) chLastSent(st *State) *smt.Term { return e.heapArr(st, "chan.lastsent", smt.BV64) }

func (e *Engine) makeChan(st *State, fr *Frame, x *ssa.MakeChan) Value {
	ch := e.freshObj(st, "chan")
	c := e.C
	st.Heap["chan.closed"] = c.Store(e.chClosed(st), ch, c.False())
	st.Heap["chan.mine"] = c.Store(e.chMine(st), ch, c.False())
	return ch
}

// Environment steps. Any channel may be closed by another goroutine between two
// observations; closure is monotone. The closed flag of channel ch observed in epoch n
// (the epoch advances at every call) is
//
//	base[ch] or v(1,ch) or ... or v(n,ch)
//
// with one unconstrained boolean v(k,ch) per epoch: monotone by construction,
// quantifier-free, and independent of where (real state or scratch copy) it is read.
func (e *Engine) envStep(st *State, ch *smt.Term) {}

func (e *Engine) envStepAll(st *State) { st.Epoch++ }

func (e *Engine) closedNow(st *State, ch *smt.Term) *smt.Term {
	c := e.C
	rs := e.rd(st)
	ts := []*smt.Term{c.Select(e.chClosed(rs), ch)}
	for k := 1; k <= rs.Epoch; k++ {
		// "some other goroutine closed ch during environment step k": an uninterpreted
		// predicate of step and channel, so that equal channel terms share it
		ts = append(ts, c.App("env$closed", smt.Bool, c.BVC(64, uint64(k)), ch))
	}
	return c.Or(ts...)
}

func (e *Engine) recvEnabled(st *State, ch *smt.Term, closeOnly bool) *smt.Term {
	c := e.C
	if closeOnly {
		// nobody ever sends on this channel (syntactic check): a receive completes iff closed
		return e.closedNow(st, ch)
	}
	return c.Or(e.closedNow(st, ch), c.Select(e.chMine(st), ch), c.Fresh("env$sender", smt.Bool))
}

// chanUse collects, over the library's packages, the struct fields whose channel is
// ever closed and those ever sent on.
func (e *Engine) chanUse() (closed, sent map[string]bool) {
	if e.closedFields != nil {
		return e.closedFields, e.sentFields
	}
	e.closedFields, e.sentFields = map[string]bool{}, map[string]bool{}
	note := func(v ssa.Value, m map[string]bool) {
		if f := chanField(v); f != "" {
			m[f] = true
		} else {
			m["?"] = true
		}
	}
	var visit func(f *ssa.Function)
	visit = func(f *ssa.Function) {
		for _, b := range f.Blocks {
			for _, in := range b.Instrs {
				switch x := in.(type) {
				case *ssa.Send:
					note(x.Chan, e.sentFields)
				case *ssa.Select:
					for _, s := range x.States {
						if s.Dir == types.SendOnly {
							note(s.Chan, e.sentFields)
						}
					}
				case ssa.CallInstruction:
					if bi, ok := x.Common().Value.(*ssa.Builtin); ok && bi.Name() == "close" {
						note(x.Common().Args[0], e.closedFields)
					}
				}
			}
		}
		for _, af := range f.AnonFuncs {
			visit(af)
		}
	}
	for path, sp := range e.SPkgs {
		if !ourPkg(path) {
			continue
		}
		for _, m := range sp.Members {
			switch x := m.(type) {
			case *ssa.Function:
				if !strings.HasPrefix(x.Name(), "gvc") {
					visit(x)
				}
			case *ssa.Type:
				for _, tt := range []types.Type{x.Type(), types.NewPointer(x.Type())} {
					ms := e.Prog.MethodSets.MethodSet(tt)
					for i := 0; i < ms.Len(); i++ {
						if f := e.Prog.MethodValue(ms.At(i)); f != nil && f.Pkg == sp {
							visit(f)
						}
					}
				}
			}
		}
	}
	return e.closedFields, e.sentFields
}

// chanField names the struct field a channel operand is loaded from ("" if it is not
// a direct field load).
func chanField(v ssa.Value) string {
	for {
		switch x := v.(type) {
		case *ssa.ChangeType:
			v = x.X
			continue
		case *ssa.MakeInterface:
			v = x.X
			continue
		}
		break
	}
	if u, ok := v.(*ssa.UnOp); ok {
		if fa, ok := u.X.(*ssa.FieldAddr); ok {
			sT, sName := structOf(fa.X.Type())
			return sName + "." + sT.Field(fa.Field).Name()
		}
	}
	return ""
}

// closeOnly: the channel operand provably (syntactically) is never sent on by the
// library: a field outside the sent set, or the result of a call (ctx.Done()).
func (e *Engine) closeOnly(v ssa.Value) bool {
	_, sent := e.chanUse()
	if f := chanField(v); f != "" {
		if !strings.HasPrefix(f, "websocket.") && !strings.HasPrefix(f, "wsjson.") {
			return false // a channel field of a foreign struct (time.Timer.C): others send on it
		}
		return !sent[f]
	}
	for {
		if ct, ok := v.(*ssa.ChangeType); ok {
			v = ct.X
			continue
		}
		break
	}
	switch v.(type) {
	case *ssa.Call:
		return true
	}
	return false
}

func (e *Engine) sendEnabled(st *State, ch *smt.Term) *smt.Term {
	c := e.C
	return c.And(c.Not(c.Select(e.chMine(st), ch)), c.Fresh("env$room", smt.Bool))
}

func (e *Engine) doRecv(st *State, ch *smt.Term, elem types.Type, commaOk bool, closeOnly bool, lockLike bool) Value {
	c := e.C
	if st.PureDepth == 0 {
		e.recordCall(st, "chan.recv", []Value{ch}, nil)
	}
	// a value buffered by this goroutine is consumed; on a closed channel the zero value arrives
	closed := e.closedNow(st, ch)
	mine := c.Select(e.chMine(st), ch)
	if closeOnly {
		mine = c.False()
	} else if lockLike {
		st.Heap["chan.mine"] = c.Store(e.chMine(st), ch, c.False())
	}
	var v Value
	if s := scalarSort(elem); s != nil {
		fresh := c.Fresh("recv", s)
		z := e.zero(elem).(*smt.Term)
		v = c.Ite(c.And(closed, c.Not(mine)), z, fresh)
		if s == smt.BV64 {
			if _, isBasic := under(elem).(*types.Basic); !isBasic {
				e.preexisting(st, fresh)
			}
		}
	} else {
		v = e.freshOfType(st, elem, "recv")
	}
	if commaOk {
		return &TupleV{V: []Value{v, c.Not(c.And(closed, c.Not(mine)))}}
	}
	return v
}

func (e *Engine) doSend(st *State, fr *Frame, ch *smt.Term, val Value, vt types.Type, pos string, field bool) {
	c := e.C
	if st.PureDepth == 0 && !fr.Pure {
		e.recordCall(st, "chan.send", []Value{ch}, nil)
	}
	if !field {
		// channels that do not come from a struct field (a ping's pong channel found in
		// the map) are not lock-like: no ownership is tracked for them
		return
	}
	// send on a closed channel: excluded by the package-level syntactic check that no
	// channel that is ever closed is ever sent on (see SyntacticChecks).
	if st0, ok := under(vt).(*types.Struct); ok && st0.NumFields() == 0 {
		// chan struct{} with capacity 1 used as a mutex: the buffered token is ours
		st.Heap["chan.mine"] = c.Store(e.chMine(st), ch, c.True())
	}
	if s := scalarSort(vt); s == smt.BV64 {
		vterm := e.asTerm(st, val, vt)
		st.Heap["chan.lastsent"] = c.Store(e.chLastSent(st), ch, vterm)
		// armed: the value sent is not (syntactically) context.Background()
		armed := c.BoolC(!(vterm.Op == smt.OVar && vterm.Name == "pure$context.Background"))
		st.Heap["chan.armed"] = c.Store(e.heapArr(st, "chan.armed", smt.Bool), ch, armed)
	}
}

// guardSend: obligation of a "guard" declaration at a send on a guarded channel field.
func (e *Engine) guardSend(st *State, fr *Frame, chv ssa.Value, pos string) {
	if len(e.Guards) == 0 || st.PureDepth > 0 || fr.Pure {
		return
	}
	f := chanField(chv)
	if f == "" {
		return
	}
	short := f[strings.LastIndex(f[:strings.LastIndex(f, ".")], ".")+1:]
	g := e.Guards[short]
	if g == nil {
		return
	}
	v := chv
	for {
		switch x := v.(type) {
		case *ssa.ChangeType:
			v = x.X
			continue
		case *ssa.MakeInterface:
			v = x.X
			continue
		}
		break
	}
	fa := v.(*ssa.UnOp).X.(*ssa.FieldAddr)
	sT, sName := structOf(fa.X.Type())
	muField := g.Opts["mu"][strings.LastIndex(g.Opts["mu"], ".")+1:]
	obj := e.asTerm(st, e.val(fr, fa.X), fa.X.Type())
	for i := 0; i < sT.NumFields(); i++ {
		if sT.Field(i).Name() != muField {
			continue
		}
		mu := e.loadHeap(st, obj, sName+"."+muField, sT.Field(i).Type()).(*smt.Term)
		mT, mName := structOf(sT.Field(i).Type())
		for j := 0; j < mT.NumFields(); j++ {
			if mT.Field(j).Name() == "ch" {
				ch := e.loadHeap(st, mu, mName+".ch", mT.Field(j).Type()).(*smt.Term)
				goal := e.C.Select(e.chMine(st), ch)
				e.obligeNamed(st, fr, "guard", short+":held:"+muField, goal, pos, g.Tags, e.fnKey(fr.Fn))
				return
			}
		}
	}
	e.fail("guard %s: field %s not found", short, g.Opts["mu"])
}

func (e *Engine) send(st *State, fr *Frame, x *ssa.Send) {
	e.guardSend(st, fr, x.Chan, e.pos(x.Pos()))
	ch := e.asTerm(st, e.val(fr, x.Chan), x.Chan.Type())
	e.envStep(st, ch)
	if chanField(x.Chan) == "" && st.PureDepth == 0 && !fr.Pure {
		// A send outside a select blocks until the channel has room. The library's own
		// mutex channels are struct fields and are meant to block; on any other channel (a
		// ping's channel found in a map, a caller's channel) a blocking send can wedge the
		// goroutine for good, so it is an obligation that the channel provably has room.
		e.oblige(st, fr, "safety:blocking-send", "", e.sendEnabled(st, ch), e.pos(x.Pos()))
	}
	// a blocking send returns only if it was enabled
	st.Assume(e.sendEnabled(st, ch))
	e.doSend(st, fr, ch, e.val(fr, x.X), x.X.Type(), e.pos(x.Pos()), chanField(x.Chan) != "")
}

func (e *Engine) recv(st *State, fr *Frame, x *ssa.UnOp, chv Value) Value {
	ch := e.asTerm(st, chv, x.X.Type())
	e.envStep(st, ch)
	co := e.closeOnly(x.X)
	st.Assume(e.recvEnabled(st, ch, co))
	elem := under(x.X.Type()).(*types.Chan).Elem()
	return e.doRecv(st, ch, elem, x.CommaOk, co, e.lockLike(x.X))
}

// selectOp explores every enabled case (and default when no case is enabled).
// Result tuple: (index int, recvOk bool, r_0, ..., r_{n-1}) for receive cases.
func (e *Engine) selectOp(st *State, fr *Frame, x *ssa.Select, k func(*State, Value)) {
	c := e.C
	type cs struct {
		ch  *smt.Term
		en  *smt.Term
		dir types.ChanDir
		co  bool
		fld bool
		lk  bool
		val Value
		vt  types.Type
		el  types.Type
	}
	var cases []cs
	for _, s := range x.States {
		ch := e.asTerm(st, e.val(fr, s.Chan), s.Chan.Type())
		e.envStep(st, ch)
		cc := cs{ch: ch, dir: s.Dir, el: under(s.Chan.Type()).(*types.Chan).Elem(), co: e.closeOnly(s.Chan), fld: chanField(s.Chan) != "", lk: e.lockLike(s.Chan)}
		if s.Dir == types.SendOnly {
			cc.val = e.val(fr, s.Send)
			cc.vt = s.Send.Type()
		}
		cases = append(cases, cc)
	}
	// a nil channel never becomes ready
	for i := range cases {
		notNil := c.Not(c.Eq(cases[i].ch, e.i64(0)))
		if cases[i].dir == types.SendOnly {
			cases[i].en = c.And(notNil, e.sendEnabled(st, cases[i].ch))
		} else {
			cases[i].en = c.And(notNil, e.recvEnabled(st, cases[i].ch, cases[i].co))
		}
	}
	// result tuple layout
	var recvTypes []types.Type
	for _, cs := range cases {
		if cs.dir == types.RecvOnly {
			recvTypes = append(recvTypes, cs.el)
		}
	}
	mkResult := func(st2 *State, idx int, recvVal Value, recvIdx int, ok *smt.Term) Value {
		tv := &TupleV{V: []Value{e.i64(int64(idx)), ok}}
		for j, t := range recvTypes {
			if j == recvIdx && recvVal != nil {
				tv.V = append(tv.V, recvVal)
			} else {
				tv.V = append(tv.V, e.zero(t))
			}
		}
		return tv
	}
	p := e.pos(x.Pos())
	ri := 0
	for i, cs := range cases {
		myRecv := -1
		if cs.dir == types.RecvOnly {
			myRecv = ri
			ri++
		}
		if cs.en.IsFalse() {
			continue
		}
		st2 := st.Clone()
		st2.Branch(cs.en)
		st2.Trace = append(st2.Trace, p+":case"+itoa(i))
		if cs.dir == types.SendOnly {
			e.guardSend(st2, fr, x.States[i].Chan, p)
			e.doSend(st2, fr, cs.ch, cs.val, cs.vt, p, cs.fld)
			k(st2, mkResult(st2, i, nil, -1, c.False()))
		} else {
			r := e.doRecv(st2, cs.ch, cs.el, true, cs.co, cs.lk).(*TupleV)
			k(st2, mkResult(st2, i, r.V[0], myRecv, r.V[1].(*smt.Term)))
		}
	}
	if !x.Blocking {
		st2 := st.Clone()
		for _, cs := range cases {
			st2.Branch(c.Not(cs.en))
		}
		st2.Trace = append(st2.Trace, p+":default")
		k(st2, mkResult(st2, -1, nil, -1, c.False()))
	}
}

func itoa(i int) string {
	if i == 0 {
		return "0"
	}
	s := ""
	neg := i < 0
	if neg {
		i = -i
	}
	for i > 0 {
		s = string(rune('0'+i%10)) + s
		i /= 10
	}
	if neg {
		s = "-" + s
	}
	return s
}

// chanTermOf extracts the channel reference from a contract-level argument
// (gvcClosed(ch any) receives the channel boxed in an interface).
func (e *Engine) chanTermOf(st *State, v Value) *smt.Term {
	switch x := v.(type) {
	case *IfaceV:
		inner := x
		for {
			if n, ok := inner.V.(*IfaceV); ok {
				inner = n
				continue
			}
			break
		}
		if t, ok := inner.V.(*smt.Term); ok {
			return t
		}
	case *smt.Term:
		return x
	}
	e.fail("channel argument expected, got %T", v)
	return nil
}

// lockLike: a channel field of the library that the library itself sends on (the
// cap-1 mutex channels and the timeout channels): ownership ("mine") is tracked.
func (e *Engine) lockLike(v ssa.Value) bool {
	_, sent := e.chanUse()
	f := chanField(v)
	return f != "" && (strings.HasPrefix(f, "websocket.") || strings.HasPrefix(f, "wsjson.")) && sent[f]
}
