package sym

import (
	"golang.org/x/tools/go/ssa"

	"gvc/smt"
)

// Channel operations are Tier-B (ghost-event) semantics; see chanops.go once built.

func (e *Engine) makeChan(st *State, fr *Frame, x *ssa.MakeChan) Value {
	ch := e.freshObj(st, "chan")
	c := e.C
	sz := e.toInt64(e.val(fr, x.Size).(*smt.Term), x.Size.Type())
	st.Heap["chan.cap"] = c.Store(e.heapArr(st, "chan.cap", smt.BV64), ch, sz)
	st.Heap["chan.count"] = c.Store(e.heapArr(st, "chan.count", smt.BV64), ch, e.i64(0))
	st.Heap["chan.closed"] = c.Store(e.heapArr(st, "chan.closed", smt.Bool), ch, c.False())
	return ch
}

func (e *Engine) send(st *State, fr *Frame, x *ssa.Send) {
	e.fail("channel send not supported yet at %s", e.pos(x.Pos()))
}

func (e *Engine) recv(st *State, fr *Frame, x *ssa.UnOp, ch Value) Value {
	e.fail("channel receive not supported yet at %s", e.pos(x.Pos()))
	return nil
}

func (e *Engine) selectOp(st *State, fr *Frame, x *ssa.Select, k func(*State, Value)) {
	e.fail("select not supported yet at %s", e.pos(x.Pos()))
}

