package sym

import (
	"fmt"
	"os"
	"go/token"
	"go/types"
	"strings"

	"golang.org/x/tools/go/ssa"

	"gvc/smt"
)

const maxPaths = 20000
const maxInlineDepth = 12

func (e *Engine) pos(p token.Pos) string {
	if !p.IsValid() {
		return "?"
	}
	ps := e.Fset.Position(p)
	return fmt.Sprintf("%s:%d", shortPos(ps.Filename), ps.Line)
}

func (e *Engine) fd(st *State, fr *Frame) *frameData {
	d := st.FD[fr.ID]
	if d == nil {
		d = &frameData{ActiveLoops: map[*ssa.BasicBlock]bool{}}
		st.FD[fr.ID] = d
	}
	return d
}

var frameSeq int

func (e *Engine) newFrame(fn *ssa.Function, parent *Frame, V *VerifyCtx) *Frame {
	frameSeq++
	fr := &Frame{ID: frameSeq, Fn: fn, Vals: map[ssa.Value]Value{}, V: V}
	if parent != nil {
		fr.Depth = parent.Depth + 1
		fr.Pure = parent.Pure
	}
	return fr
}

func (e *Engine) val(fr *Frame, v ssa.Value) Value {
	switch x := v.(type) {
	case *ssa.Const:
		return e.constVal(x)
	case *ssa.Function:
		return &ClosureV{Fn: x}
	case *ssa.Global:
		if x.Pkg != nil && !ourPkg(x.Pkg.Pkg.Path()) {
			e.foreignGlobals[globalKey(x)] = true
		}
		return &PtrV{Kind: PGlobal, Key: globalKey(x), T: x.Type().(*types.Pointer).Elem()}
	case *ssa.Builtin:
		return x
	case *ssa.FreeVar:
		for i, fv := range fr.Fn.FreeVars {
			if fv == x {
				return fr.Free[i]
			}
		}
	case *ssa.Parameter:
		for i, p := range fr.Fn.Params {
			if p == x {
				return fr.Params[fr.POff+i]
			}
		}
	}
	r, ok := fr.Vals[v]
	if !ok {
		e.fail("use of undefined SSA value %s (%T) in %s", v.Name(), v, fr.Fn)
	}
	return r
}

func globalKey(g *ssa.Global) string {
	if g.Pkg != nil {
		return g.Pkg.Pkg.Name() + "." + g.Name()
	}
	return g.Name()
}

// exec runs instructions of blk starting at idx along one path; k is called at each return.
func (e *Engine) exec(fr *Frame, blk *ssa.BasicBlock, idx int, st *State, k func(*State, []Value)) {
	for i := idx; i < len(blk.Instrs); i++ {
		in := blk.Instrs[i]
		switch x := in.(type) {
		case *ssa.DebugRef:
			continue
		case *ssa.Alloc:
			t := x.Type().(*types.Pointer).Elem()
			if _, isStruct := under(t).(*types.Struct); isStruct && x.Heap && !e.onlyLocalUse(x) {
				// an escaping struct allocation is a real heap object with zeroed fields
				ref := e.freshObj(st, "new$"+typeName(t))
				e.storeHeap(st, ref, typeName(t), t, e.zero(t))
				fr.Vals[x] = ref
				continue
			}
			if at, isArr := under(t).(*types.Array); isArr && x.Heap && x.Comment == "makeslice" {
				// make([]T, constant): go/ssa allocates an array and slices it; the array is a
				// fresh zero-filled region like any other make
				n := e.i64(at.Len())
				sv := e.allocSlice(st, at.Elem(), n, n, "make@"+e.pos(x.Pos()))
				fr.Vals[x] = &PtrV{Kind: PArrRegion, Reg: sv.Region, T: t}
				continue
			}
			e.nextCell++
			cell := &Cell{ID: e.nextCell, Name: x.Comment, T: t}
			st.Cells[cell] = e.zero(t)
			fr.Vals[x] = &PtrV{Kind: PCell, Cell: cell, T: t}
		case *ssa.Store:
			e.store(st, e.val(fr, x.Addr), x.Val.Type(), e.val(fr, x.Val), e.pos(x.Pos()))
		case *ssa.UnOp:
			fr.Vals[x] = e.unop(st, fr, x)
		case *ssa.BinOp:
			fr.Vals[x] = e.binop(st, x.Op, e.val(fr, x.X), e.val(fr, x.Y), x.X.Type(), x.Y.Type(), fr, e.pos(x.Pos()))
		case *ssa.Convert:
			fr.Vals[x] = e.convert(st, e.val(fr, x.X), x.X.Type(), x.Type(), fr, e.pos(x.Pos()))
		case *ssa.ChangeType:
			fr.Vals[x] = e.val(fr, x.X)
		case *ssa.ChangeInterface:
			fr.Vals[x] = e.val(fr, x.X)
		case *ssa.MakeInterface:
			fr.Vals[x] = &IfaceV{T: x.X.Type(), V: e.val(fr, x.X)}
		case *ssa.Extract:
			fr.Vals[x] = e.val(fr, x.Tuple).(*TupleV).V[x.Index]
		case *ssa.Field:
			fr.Vals[x] = e.val(fr, x.X).(*StructV).F[x.Field]
		case *ssa.FieldAddr:
			fr.Vals[x] = e.fieldAddr(st, fr, x)
		case *ssa.IndexAddr:
			fr.Vals[x] = e.indexAddr(st, fr, x)
		case *ssa.Index:
			fr.Vals[x] = e.index(st, fr, x)
		case *ssa.Slice:
			fr.Vals[x] = e.sliceOp(st, fr, x)
		case *ssa.MakeSlice:
			fr.Vals[x] = e.makeSlice(st, fr, x)
		case *ssa.MakeClosure:
			cv := &ClosureV{Fn: x.Fn.(*ssa.Function)}
			for _, b := range x.Bindings {
				cv.Bind = append(cv.Bind, e.val(fr, b))
			}
			fr.Vals[x] = cv
		case *ssa.MakeMap:
			fr.Vals[x] = e.freshObj(st, "map")
		case *ssa.MakeChan:
			fr.Vals[x] = e.makeChan(st, fr, x)
		case *ssa.Lookup:
			fr.Vals[x] = e.lookup(st, fr, x)
		case *ssa.MapUpdate:
			e.mapUpdate(st, fr, x)
		case *ssa.TypeAssert:
			fr.Vals[x] = e.typeAssert(st, fr, x)
		case *ssa.Phi:
			prev := e.fd(st, fr).Prev
			found := false
			for j, p := range blk.Preds {
				if p == prev {
					fr.Vals[x] = e.val(fr, x.Edges[j])
					found = true
					break
				}
			}
			if !found {
				e.fail("phi without matching predecessor in %s", fr.Fn)
			}
		case *ssa.Call:
			args := e.callArgs(fr, &x.Call)
			rest := i + 1
			e.call(st, fr, &x.Call, args, x.Pos(), x.Type(), func(st2 *State, res Value) {
				fr.Vals[x] = res
				e.exec(fr, blk, rest, st2, k)
			})
			return
		case *ssa.Defer:
			d := deferred{Call: &x.Call, Args: e.callArgs(fr, &x.Call), Pos: x.Pos()}
			if !x.Call.IsInvoke() {
				if _, ok := x.Call.Value.(*ssa.Builtin); !ok {
					d.Fn = e.val(fr, x.Call.Value)
				}
			}
			fdd := e.fd(st, fr)
			fdd.Defers = append(fdd.Defers, d)
		case *ssa.RunDefers:
			rest := i + 1
			e.runDefers(st, fr, func(st2 *State) {
				e.exec(fr, blk, rest, st2, k)
			})
			return
		case *ssa.Go:
			// spawned goroutine: not modelled (sequential reasoning). A go statement in a
			// function under contract moves effects out of the contract's reach, so it is an
			// obligation that fails unless the contract says "opt allow-go=<reason>".
			e.Stats["go-statements-skipped"]++
			if st.PureDepth == 0 && !fr.Pure && (fr.V == nil || fr.V.FC == nil || fr.V.FC.B.Opts["allow-go"] == "") {
				e.oblige(st, fr, "safety:unmodelled-go-statement", "", e.C.False(), e.pos(x.Pos()))
			}
		case *ssa.Send:
			e.send(st, fr, x)
		case *ssa.Select:
			rest := i + 1
			e.selectOp(st, fr, x, func(st2 *State, res Value) {
				fr.Vals[x] = res
				e.exec(fr, blk, rest, st2, k)
			})
			return
		case *ssa.Panic:
			if st.PureDepth == 0 && !fr.Pure {
				e.oblige(st, fr, "safety:explicit-panic", "", e.C.False(), e.pos(x.Pos()))
			}
			return
		case *ssa.If:
			cond, ok := e.val(fr, x.Cond).(*smt.Term)
			if !ok {
				e.fail("non-term condition")
			}
			p := e.pos(x.Cond.Pos())
			if x.Cond.Pos() == token.NoPos {
				p = e.lastPos(blk, i)
			}
			if cond.IsTrue() {
				e.jump(fr, blk, blk.Succs[0], st, k)
				return
			}
			if cond.IsFalse() {
				e.jump(fr, blk, blk.Succs[1], st, k)
				return
			}
			nc := e.C.Not(cond)
			if e.inPC(st, nc) {
				e.jump(fr, blk, blk.Succs[1], st, k)
				return
			}
			if e.inPC(st, cond) {
				e.jump(fr, blk, blk.Succs[0], st, k)
				return
			}
			if e.ifConvert(fr, blk, st, cond) {
				e.jump(fr, blk, blk.Succs[1], st, k)
				return
			}
			if e.regionMerge(fr, blk, st, cond, p, k) {
				return
			}
			st2 := st.Clone()
			st.Branch(cond)
			st.Trace = append(st.Trace, p+":T")
			e.jump(fr, blk, blk.Succs[0], st, k)
			st2.Branch(nc)
			st2.Trace = append(st2.Trace, p+":F")
			e.jump(fr, blk, blk.Succs[1], st2, k)
			return
		case *ssa.Jump:
			e.jump(fr, blk, blk.Succs[0], st, k)
			return
		case *ssa.Return:
			var res []Value
			for _, r := range x.Results {
				res = append(res, e.val(fr, r))
			}
			k(st, res)
			return
		case *ssa.Range, *ssa.Next:
			e.fail("range over map/string not supported at %s", e.pos(in.Pos()))
		default:
			e.fail("unsupported instruction %T at %s", in, e.pos(in.Pos()))
		}
	}
}

func (e *Engine) lastPos(blk *ssa.BasicBlock, i int) string {
	for j := i; j >= 0; j-- {
		if p := blk.Instrs[j].Pos(); p.IsValid() {
			return e.pos(p)
		}
	}
	return fmt.Sprintf("b%d", blk.Index)
}

func (e *Engine) inPC(st *State, t *smt.Term) bool {
	for i := len(st.PC) - 1; i >= 0; i-- {
		if st.PC[i] == t {
			return true
		}
	}
	return st.Known[t]
}

func (e *Engine) callArgs(fr *Frame, cc *ssa.CallCommon) []Value {
	var args []Value
	if cc.IsInvoke() {
		args = append(args, e.val(fr, cc.Value))
	}
	for _, a := range cc.Args {
		args = append(args, e.val(fr, a))
	}
	return args
}

func (e *Engine) runDefers(st *State, fr *Frame, k func(*State)) {
	fdd := e.fd(st, fr)
	if len(fdd.Defers) == 0 {
		k(st)
		return
	}
	d := fdd.Defers[len(fdd.Defers)-1]
	fdd.Defers = fdd.Defers[:len(fdd.Defers)-1]
	var rt types.Type
	if sig := d.Call.Signature(); sig != nil {
		rt = sig.Results()
	}
	e.callWith(st, fr, d.Call, d.Fn, d.Args, d.Pos, rt, func(st2 *State, _ Value) {
		e.runDefers(st2, fr, k)
	})
}

// ---------- unary ----------

func (e *Engine) unop(st *State, fr *Frame, x *ssa.UnOp) Value {
	c := e.C
	v := e.val(fr, x.X)
	switch x.Op {
	case token.MUL:
		if t, ok := v.(*smt.Term); ok && st.PureDepth == 0 && !fr.Pure {
			e.oblige(st, fr, "safety:nil-deref", "", c.Not(c.Eq(t, e.i64(0))), e.pos(x.Pos()))
		}
		r := e.load(st, v, x.Type(), e.pos(x.Pos()))
		return r
	case token.NOT:
		return c.Not(v.(*smt.Term))
	case token.SUB:
		return c.Neg(v.(*smt.Term))
	case token.XOR:
		return c.BvNot(v.(*smt.Term))
	case token.ARROW:
		return e.recv(st, fr, x, v)
	}
	e.fail("unsupported unop %s", x.Op)
	return nil
}

func structOf(t types.Type) (*types.Struct, string) {
	if p, ok := under(t).(*types.Pointer); ok {
		t = p.Elem()
	}
	s, _ := under(t).(*types.Struct)
	return s, typeName(t)
}

func (e *Engine) fieldAddr(st *State, fr *Frame, x *ssa.FieldAddr) Value {
	base := e.val(fr, x.X)
	sT, sName := structOf(x.X.Type())
	f := sT.Field(x.Field)
	switch b := base.(type) {
	case *PtrV:
		switch b.Kind {
		case PCell:
			return &PtrV{Kind: PCell, Cell: b.Cell, Path: append(append([]int(nil), b.Path...), x.Field), T: f.Type()}
		case PField:
			return &PtrV{Kind: PField, Obj: b.Obj, Key: b.Key + "." + f.Name(), T: f.Type()}
		case PElem:
			return &PtrV{Kind: PElem, Reg: b.Reg, Idx: b.Idx, Key: b.Key + "." + f.Name(), T: f.Type()}
		case PGlobal:
			return &PtrV{Kind: PField, Obj: e.i64(0), Key: "g:" + b.Key + "." + f.Name(), T: f.Type()}
		}
	case *smt.Term:
		if st.PureDepth == 0 && !fr.Pure {
			e.oblige(st, fr, "safety:nil-deref", "", e.C.Not(e.C.Eq(b, e.i64(0))), e.pos(x.Pos()))
		}
		return &PtrV{Kind: PField, Obj: b, Key: sName + "." + f.Name(), T: f.Type()}
	}
	e.fail("FieldAddr on %T at %s", base, e.pos(x.Pos()))
	return nil
}

func (e *Engine) indexAddr(st *State, fr *Frame, x *ssa.IndexAddr) Value {
	c := e.C
	base := e.val(fr, x.X)
	idx := e.val(fr, x.Index).(*smt.Term)
	idx = e.toInt64(idx, x.Index.Type())
	switch b := base.(type) {
	case *SliceV:
		if b.Conc != nil {
			if !idx.IsConst() {
				e.fail("symbolic index into executor-level slice")
			}
			return &PtrV{Kind: PCell, Cell: b.Conc, Path: []int{b.ConcLo + int(idx.Val)}, T: b.Elem}
		}
		if st.PureDepth == 0 && !fr.Pure {
			e.oblige(st, fr, "safety:index", "", c.Ult(idx, b.Len), e.pos(x.Pos()))
		}
		return &PtrV{Kind: PElem, Reg: b.Region, Idx: c.Add(b.Off, idx), Key: elemKey(b.Elem), T: b.Elem}
	case *PtrV:
		// pointer to array
		at, _ := under(b.T).(*types.Array)
		if at == nil {
			e.fail("IndexAddr on pointer to %s", b.T)
		}
		switch b.Kind {
		case PCell:
			if !idx.IsConst() {
				e.fail("symbolic index into local array at %s", e.pos(x.Pos()))
			}
			if int64(idx.Val) >= at.Len() {
				e.fail("constant index out of range")
			}
			return &PtrV{Kind: PCell, Cell: b.Cell, Path: append(append([]int(nil), b.Path...), int(idx.Val)), T: at.Elem()}
		case PField:
			if st.PureDepth == 0 && !fr.Pure {
				e.oblige(st, fr, "safety:index", "", c.Ult(idx, e.i64(at.Len())), e.pos(x.Pos()))
			}
			return &PtrV{Kind: PElem, Reg: e.regionOfNoted(st, b.Key, b.Obj), Idx: idx, Key: elemKey(at.Elem()), T: at.Elem()}
		}
	}
	e.fail("IndexAddr on %T at %s", base, e.pos(x.Pos()))
	return nil
}

func (e *Engine) regionOfNoted(st *State, key string, obj *smt.Term) *smt.Term {
	r := e.regionOf(key, obj)
	c := e.C
	if !st.Marked[r] {
		st.Marked[r] = true
		st.Assume(c.Eq(c.App("region_inv$"+key, smt.BV64, r), obj))
		st.Assume(c.Eq(c.App("region_kind", smt.BV64, r), e.kindConst("regionkind$"+key)))
		st.Assume(c.Not(c.Eq(r, e.i64(0))))
		st.Assume(c.Select(e.allocMap(st), r))
		if entryReachable(obj) {
			// the array embedded in an object that existed at entry is none of the regions
			// allocated since
			for _, f := range st.Fresh {
				st.Assume(c.Not(c.Eq(r, f)))
			}
		}
		g := c.App("region_ghost", smt.Bool, r)
		if strings.Contains(key, ".ghost") {
			st.Assume(g)
		} else {
			st.Assume(c.Not(g))
		}
	}
	return r
}

func (e *Engine) toInt64(t *smt.Term, ty types.Type) *smt.Term {
	if t.Sort.W == 64 {
		return t
	}
	if isSigned(ty) {
		return e.C.Sext(64, t)
	}
	return e.C.Zext(64, t)
}

func (e *Engine) index(st *State, fr *Frame, x *ssa.Index) Value {
	base := e.val(fr, x.X)
	idx := e.toInt64(e.val(fr, x.Index).(*smt.Term), x.Index.Type())
	switch b := base.(type) {
	case *ArrV:
		if !idx.IsConst() {
			e.fail("symbolic index into array value")
		}
		return b.Elems[idx.Val]
	case *smt.Term:
		if b.Sort == smt.Str {
			if st.PureDepth == 0 && !fr.Pure {
				e.oblige(st, fr, "safety:index", "", e.C.Ult(idx, e.slen(b)), e.pos(x.Pos()))
			}
			return e.sbyte(b, idx)
		}
	case *SliceV:
		return e.loadElem(st, b.Region, e.C.Add(b.Off, idx), elemKey(b.Elem), b.Elem)
	}
	e.fail("Index on %T", base)
	return nil
}

func (e *Engine) sliceOp(st *State, fr *Frame, x *ssa.Slice) Value {
	c := e.C
	base := e.val(fr, x.X)
	get := func(v ssa.Value) *smt.Term {
		if v == nil {
			return nil
		}
		return e.toInt64(e.val(fr, v).(*smt.Term), v.Type())
	}
	lo, hi, mx := get(x.Low), get(x.High), get(x.Max)
	checks := st.PureDepth == 0 && !fr.Pure
	switch b := base.(type) {
	case *SliceV:
		if b.Conc != nil {
			l, h := 0, b.ConcHi-b.ConcLo
			if lo != nil {
				if !lo.IsConst() {
					e.fail("symbolic slicing of executor-level slice")
				}
				l = int(lo.Val)
			}
			if hi != nil {
				if !hi.IsConst() {
					e.fail("symbolic slicing of executor-level slice")
				}
				h = int(hi.Val)
			}
			return &SliceV{Conc: b.Conc, ConcLo: b.ConcLo + l, ConcHi: b.ConcLo + h, Elem: b.Elem, Len: e.i64(int64(h - l)), Cap: e.i64(int64(h - l)), Region: e.i64(0), Off: e.i64(0)}
		}
		if lo == nil {
			lo = e.i64(0)
		}
		if hi == nil {
			hi = b.Len
		}
		capv := b.Cap
		if mx != nil {
			if checks {
				e.oblige(st, fr, "safety:slice-bounds", "max", c.And(c.Sle(hi, mx), c.Sle(mx, b.Cap)), e.pos(x.Pos()))
			}
			capv = mx
		}
		if checks {
			e.oblige(st, fr, "safety:slice-bounds", "", c.And(c.Sle(e.i64(0), lo), c.Sle(lo, hi), c.Sle(hi, capv)), e.pos(x.Pos()))
		}
		return &SliceV{Region: b.Region, Off: c.Add(b.Off, lo), Len: c.Sub(hi, lo), Cap: c.Sub(capv, lo), Elem: b.Elem}
	case *smt.Term:
		if b.Sort == smt.Str {
			n := e.slen(b)
			if lo == nil {
				lo = e.i64(0)
			}
			if hi == nil {
				hi = n
			}
			if checks {
				e.oblige(st, fr, "safety:slice-bounds", "string", c.And(c.Sle(e.i64(0), lo), c.Sle(lo, hi), c.Sle(hi, n)), e.pos(x.Pos()))
			}
			if lo.IsConst() && lo.Val == 0 && hi == n {
				return b
			}
			if l, ok := e.litOf(b); ok && lo.IsConst() && hi.IsConst() && int(hi.Val) <= len(l) && lo.Val <= hi.Val {
				return e.strLit(l[lo.Val:hi.Val])
			}
			r := c.App("substr", smt.Str, b, lo, hi)
			st.Assume(c.Eq(e.slen(r), c.Sub(hi, lo)))
			return r
		}
	case *PtrV:
		at, _ := under(b.T).(*types.Array)
		if at == nil {
			e.fail("slice of pointer to %s", b.T)
		}
		n := e.i64(at.Len())
		if lo == nil {
			lo = e.i64(0)
		}
		if hi == nil {
			hi = n
		}
		if checks {
			e.oblige(st, fr, "safety:slice-bounds", "array", c.And(c.Sle(e.i64(0), lo), c.Sle(lo, hi), c.Sle(hi, n)), e.pos(x.Pos()))
		}
		switch b.Kind {
		case PArrRegion:
			return &SliceV{Region: b.Reg, Off: lo, Len: c.Sub(hi, lo), Cap: c.Sub(n, lo), Elem: at.Elem()}
		case PField:
			return &SliceV{Region: e.regionOfNoted(st, b.Key, b.Obj), Off: lo, Len: c.Sub(hi, lo), Cap: c.Sub(n, lo), Elem: at.Elem()}
		case PCell:
			if !lo.IsConst() || !hi.IsConst() {
				e.fail("symbolic slicing of local array")
			}
			if len(b.Path) != 0 {
				e.fail("slicing nested local array")
			}
			return &SliceV{Conc: b.Cell, ConcLo: int(lo.Val), ConcHi: int(hi.Val), Elem: at.Elem(), Len: c.Sub(hi, lo), Cap: c.Sub(n, lo), Region: e.i64(0), Off: e.i64(0)}
		}
	}
	e.fail("Slice on %T at %s", base, e.pos(x.Pos()))
	return nil
}

func (e *Engine) makeSlice(st *State, fr *Frame, x *ssa.MakeSlice) Value {
	c := e.C
	ln := e.toInt64(e.val(fr, x.Len).(*smt.Term), x.Len.Type())
	cp := e.toInt64(e.val(fr, x.Cap).(*smt.Term), x.Cap.Type())
	elem := under(x.Type()).(*types.Slice).Elem()
	if st.PureDepth == 0 && !fr.Pure {
		e.oblige(st, fr, "safety:make-size", "", c.And(c.Sle(e.i64(0), ln), c.Sle(ln, cp), c.Sle(cp, e.i64(1<<56))), e.pos(x.Pos()))
	}
	return e.allocSlice(st, elem, ln, cp, "make@"+e.pos(x.Pos()))
}

// allocSlice creates a zero-filled fresh region.
func (e *Engine) allocSlice(st *State, elem types.Type, ln, cp *smt.Term, why string) *SliceV {
	c := e.C
	reg := e.freshRegion(st, "make")
	for _, lf := range flatten(elem) {
		if lf.Sort == nil {
			e.fail("slice of arrays unsupported")
		}
		key := elemKey(elem) + lf.Path
		m := e.memArr(st, key, lf.Sort)
		// zero-filled: constant array expressed through a fresh array with a quantified fact
		arr := c.Fresh("zeroed", smt.Arr(smt.BV64, lf.Sort))
		kk := c.Bound("k", smt.BV64)
		var z *smt.Term
		switch lf.Sort.K {
		case smt.KBool:
			z = c.False()
		case smt.KBV:
			z = c.BVC(lf.Sort.W, 0)
		default:
			z = e.strLit("")
		}
		st.Assume(c.Forall([]*smt.Term{kk}, c.Eq(c.Select(arr, kk), z)))
		st.Mem[key] = c.Store(m, reg, arr)
	}
	return &SliceV{Region: reg, Off: e.i64(0), Len: ln, Cap: cp, Elem: elem}
}

func (e *Engine) typeAssert(st *State, fr *Frame, x *ssa.TypeAssert) Value {
	c := e.C
	v := e.val(fr, x.X)
	at := x.AssertedType
	_, toIface := under(at).(*types.Interface)
	mk := func(val Value, ok *smt.Term) Value {
		if x.CommaOk {
			return &TupleV{V: []Value{val, ok}}
		}
		if st.PureDepth == 0 && !fr.Pure {
			e.oblige(st, fr, "safety:type-assert", "", ok, e.pos(x.Pos()))
		}
		return val
	}
	switch iv := v.(type) {
	case *IfaceV:
		inner := iv
		for {
			if n, ok := inner.V.(*IfaceV); ok {
				inner = n
				continue
			}
			break
		}
		if toIface {
			ok := types.Implements(inner.T, under(at).(*types.Interface))
			if ok {
				return mk(inner, c.True())
			}
			return mk(e.zero(at), c.False())
		}
		if types.Identical(inner.T, at) {
			return mk(inner.V, c.True())
		}
		return mk(e.zero(at), c.False())
	case *smt.Term:
		if toIface {
			// interface-to-interface assertion on an unknown dynamic type
			ok := c.App("implements$"+typeName(at), smt.Bool, e.dynType(iv))
			ok = c.And(ok, c.Not(c.Eq(iv, e.i64(0))))
			return mk(iv, ok)
		}
		ok := c.And(c.Not(c.Eq(iv, e.i64(0))), c.Eq(e.dynType(iv), e.typeTag(at)))
		val := e.projLoad(iv, "ifval$"+typeName(at), at)
		if _, isPtr := under(at).(*types.Pointer); isPtr {
			// assumption A-typed-nil: interfaces in this code base never hold typed nil pointers
			if vt, isT := val.(*smt.Term); isT {
				st.Assume(c.Implies(ok, c.Not(c.Eq(vt, e.i64(0)))))
			}
		}
		return mk(val, ok)
	}
	e.fail("TypeAssert on %T", v)
	return nil
}

// ---------- jumps and loops ----------

func (e *Engine) loopsOf(fn *ssa.Function) map[*ssa.BasicBlock]*loopInfo {
	out := map[*ssa.BasicBlock]*loopInfo{}
	if len(fn.Blocks) == 0 {
		return out
	}
	var headers []*ssa.BasicBlock
	for _, b := range fn.Blocks {
		for _, s := range b.Succs {
			if s.Dominates(b) {
				if out[s] == nil {
					out[s] = &loopInfo{Header: s, Blocks: map[*ssa.BasicBlock]bool{s: true}}
					headers = append(headers, s)
				}
				// natural loop of back edge b->s
				li := out[s]
				stack := []*ssa.BasicBlock{b}
				for len(stack) > 0 {
					n := stack[len(stack)-1]
					stack = stack[:len(stack)-1]
					if li.Blocks[n] {
						continue
					}
					li.Blocks[n] = true
					stack = append(stack, n.Preds...)
				}
			}
		}
	}
	// ordinals by block index (creation order == source order in go/ssa)
	for i := 0; i < len(headers); i++ {
		for j := i + 1; j < len(headers); j++ {
			if headers[j].Index < headers[i].Index {
				headers[i], headers[j] = headers[j], headers[i]
			}
		}
	}
	// go/ssa creates for.body before for.loop; order by the position of the first
	// positioned instruction of the loop instead when available.
	type hp struct {
		h   *ssa.BasicBlock
		pos token.Pos
	}
	var hs []hp
	for _, h := range headers {
		p := token.NoPos
		for b := range out[h].Blocks {
			for _, in := range b.Instrs {
				if ip := in.Pos(); ip.IsValid() && (p == token.NoPos || ip < p) {
					p = ip
				}
			}
		}
		hs = append(hs, hp{h, p})
	}
	for i := 0; i < len(hs); i++ {
		for j := i + 1; j < len(hs); j++ {
			if hs[j].pos < hs[i].pos {
				hs[i], hs[j] = hs[j], hs[i]
			}
		}
	}
	for i, x := range hs {
		out[x.h].Ord = i + 1
	}
	return out
}

func (e *Engine) jump(fr *Frame, from, to *ssa.BasicBlock, st *State, k func(*State, []Value)) {
	fdd := e.fd(st, fr)
	fdd.Prev = from
	if n := len(fdd.Stops); n > 0 && fdd.Stops[n-1].at == to {
		sp := fdd.Stops[n-1]
		fdd.Stops = fdd.Stops[:n-1]
		sp.k(st, from)
		return
	}
	if fr.loops == nil {
		fr.loops = e.loopsOf(fr.Fn)
	}
	li := fr.loops[to]
	if li == nil {
		e.exec(fr, to, 0, st, k)
		return
	}
	if st.PureDepth > 0 || fr.Pure {
		e.fail("loop in pure/spec function %s", fr.Fn)
	}
	var lc *LoopContract
	if fc := e.ByFn[fr.Fn]; fc != nil {
		lc = fc.Loops[li.Ord]
	}
	if lc == nil || len(lc.Invariants) == 0 {
		e.fail("loop %d of %s has no invariant", li.Ord, fr.Fn)
	}
	fcName := e.fnKey(fr.Fn)
	if fdd.ActiveLoops[to] {
		// back edge: invariant must be preserved
		for _, inv := range lc.Invariants {
			g := e.evalLoopClause(st, fr, inv, li)
			e.obligeNamed(st, fr, "invariant-preserve", fmt.Sprintf("loop%d:%s", li.Ord, inv.C.Label), g, e.pos(to.Instrs[0].Pos()), inv.C.Tags, fcName)
		}
		if lc.Decreases != nil {
			cur := e.evalLoopClauseV(st, fr, lc.Decreases, li).(*smt.Term)
			head := st.Cells[e.decCell(fr, to)].(*smt.Term)
			g := e.C.And(e.C.Slt(cur, head), e.C.Sle(e.i64(0), head))
			e.obligeNamed(st, fr, "decreases", fmt.Sprintf("loop%d", li.Ord), g, e.pos(to.Instrs[0].Pos()), nil, fcName)
		}
		if lc.Modifies != nil {
			e.loopFrameCheck(st, fr, li, lc, fcName)
		}
		return
	}
	// entry
	for _, inv := range lc.Invariants {
		g := e.evalLoopClause(st, fr, inv, li)
		e.obligeNamed(st, fr, "invariant-init", fmt.Sprintf("loop%d:%s", li.Ord, inv.C.Label), g, e.pos(to.Instrs[0].Pos()), inv.C.Tags, fcName)
	}
	fdd.ActiveLoops[to] = true
	e.havocLoop(st, fr, li, lc)
	for _, inv := range lc.Invariants {
		st.Assume(e.evalLoopClause(st, fr, inv, li))
	}
	if lc.Decreases != nil {
		st.Cells[e.decCell(fr, to)] = e.evalLoopClauseV(st, fr, lc.Decreases, li)
	}
	st.Trace = append(st.Trace, fmt.Sprintf("loop%d", li.Ord))
	e.exec(fr, to, 0, st, k)
}

var decCells = map[string]*Cell{}

func (e *Engine) decCell(fr *Frame, h *ssa.BasicBlock) *Cell {
	key := fmt.Sprintf("%d/%d", fr.ID, h.Index)
	c := decCells[key]
	if c == nil {
		e.nextCell++
		c = &Cell{ID: e.nextCell, Name: "decreases"}
		decCells[key] = c
	}
	return c
}

// ---------- obligations ----------

func (e *Engine) oblige(st *State, fr *Frame, kind, label string, goal *smt.Term, pos string) {
	fn := fr.Fn
	// attribute to the function under verification (outermost frame's V)
	name := e.fnKey(fn)
	e.obligeNamed(st, fr, kind, label, goal, pos, nil, name)
}

func (e *Engine) obligeNamed(st *State, fr *Frame, kind, label string, goal *smt.Term, pos string, tags []string, inFn string) {
	if os.Getenv("GVC_DEBUG") != "" && strings.Contains(kind+"/"+label, os.Getenv("GVC_DEBUG")) {
		fmt.Fprintf(os.Stderr, "OBLIGE %s/%s: %s\n", kind, label, e.C.Show(goal))
	}
	if goal.IsTrue() {
		e.Stats["obligations-trivial"]++
		return
	}
	if st.Known[goal] || e.inPC(st, goal) {
		e.Stats["obligations-known"]++
		return
	}
	// cheap simplification under the literal facts of the path
	if len(st.Lits) > 0 {
		if g2 := e.C.Subst(goal, st.Lits); g2.IsTrue() {
			e.Stats["obligations-by-literals"]++
			st.Known[goal] = true
			return
		}
	}
	V := fr.V
	if V == nil {
		return
	}
	top := e.fnKey(V.Fn)
	if V.FC != nil && V.FC.Lemma {
		top = V.FC.Key
	}
	base := top + "/" + kind
	if label != "" {
		base += "/" + label
	}
	if inFn != "" && inFn != top {
		base += "@" + inFn
	}
	if strings.HasPrefix(kind, "safety") || kind == "requires-at-call" {
		base += "@" + pos
	}
	V.nOblig[base]++
	ob := &Obligation{Name: base, Fn: top, Kind: kind, Label: label, Goal: goal, Pos: pos, Ord: V.nOblig[base],
		Hyps: append([]*smt.Term(nil), st.PC...), Path: append([]string(nil), st.Trace...), Inputs: V.Inputs}
	seenLA := map[*smt.Term]bool{}
	for _, a := range st.Heap {
		for _, v := range e.versionedArrs(a) {
			if !seenLA[v] {
				seenLA[v] = true
				ob.LiveArrs = append(ob.LiveArrs, v)
			}
		}
	}
	for _, a := range st.Mem {
		for _, v := range e.versionedArrs(a) {
			if !seenLA[v] {
				seenLA[v] = true
				ob.LiveArrs = append(ob.LiveArrs, v)
			}
		}
	}
	ob.Tags = append(ob.Tags, V.Tags...)
	if len(tags) > 0 {
		var ts []string
		for _, t := range tags {
			if t != "assume" {
				ts = append(ts, t)
			}
		}
		if len(ts) > 0 {
			ob.Tags = ts
		}
	}
	ob.ID = len(e.Obligs) + 1
	e.Obligs = append(e.Obligs, ob)
	// after the check the fact may be used on this path
	st.Known[goal] = true
	st.Assume(goal)
}

// ifConvert handles "if c { simple assignments to locals }": the then-block is
// executed on a copy of the state and the local cells are merged with ite, so that
// such diamonds do not multiply the number of paths. Only blocks that cannot raise
// obligations, call, or touch the heap qualify.
func (e *Engine) ifConvert(fr *Frame, blk *ssa.BasicBlock, st *State, cond *smt.Term) bool {
	then, join := blk.Succs[0], blk.Succs[1]
	if len(then.Preds) != 1 || len(then.Succs) != 1 || then.Succs[0] != join || then == join {
		return false
	}
	for _, in := range join.Instrs {
		if _, ok := in.(*ssa.Phi); ok {
			return false
		}
	}
	if fr.loops == nil {
		fr.loops = e.loopsOf(fr.Fn)
	}
	if fr.loops[join] != nil || fr.loops[then] != nil {
		return false
	}
	for _, in := range then.Instrs {
		switch x := in.(type) {
		case *ssa.DebugRef, *ssa.Jump, *ssa.Convert, *ssa.ChangeType:
		case *ssa.BinOp:
			switch x.Op {
			case token.QUO, token.REM, token.SHL, token.SHR:
				return false
			}
		case *ssa.UnOp:
			if x.Op == token.MUL {
				if _, ok := x.X.(*ssa.Alloc); !ok {
					return false
				}
			} else if x.Op == token.ARROW {
				return false
			}
		case *ssa.Store:
			if _, ok := x.Addr.(*ssa.Alloc); !ok {
				return false
			}
			switch x.Val.Type().Underlying().(type) {
			case *types.Basic:
			default:
				return false
			}
		default:
			return false
		}
	}
	st2 := st.Clone()
	for _, in := range then.Instrs {
		switch x := in.(type) {
		case *ssa.Store:
			e.store(st2, e.val(fr, x.Addr), x.Val.Type(), e.val(fr, x.Val), "")
		case *ssa.UnOp:
			fr.Vals[x] = e.unop(st2, fr, x)
		case *ssa.BinOp:
			fr.Vals[x] = e.binop(st2, x.Op, e.val(fr, x.X), e.val(fr, x.Y), x.X.Type(), x.Y.Type(), fr, "")
		case *ssa.Convert:
			fr.Vals[x] = e.convert(st2, e.val(fr, x.X), x.X.Type(), x.Type(), fr, "")
		case *ssa.ChangeType:
			fr.Vals[x] = e.val(fr, x.X)
		}
	}
	for cell, nv := range st2.Cells {
		ov, ok := st.Cells[cell]
		if ok && ov == nv {
			continue
		}
		if !ok {
			ov = e.zero(cell.T)
		}
		st.Cells[cell] = e.iteVal(cond, nv, ov)
	}
	e.Stats["if-conversions"]++
	return true
}

// onlyLocalUse: the allocation's address is used only for field access, loads and
// stores through it (so an executor-level cell models it exactly).
func (e *Engine) onlyLocalUse(a *ssa.Alloc) bool {
	var ok func(v ssa.Value, depth int) bool
	ok = func(v ssa.Value, depth int) bool {
		if depth > 6 {
			return false
		}
		for _, r := range *v.Referrers() {
			switch x := r.(type) {
			case *ssa.DebugRef:
			case *ssa.UnOp:
				if x.Op != token.MUL {
					return false
				}
			case *ssa.Store:
				if x.Addr != v {
					return false // the pointer itself is stored somewhere
				}
			case *ssa.FieldAddr:
				if !ok(x, depth+1) {
					return false
				}
			case *ssa.IndexAddr:
				if !ok(x, depth+1) {
					return false
				}
			default:
				return false
			}
		}
		return true
	}
	return ok(a, 0)
}

// regionMerge generalises ifConvert to small acyclic regions of "simple" blocks
// (no calls, no heap stores, no returns) that have a single exit block: every path
// through the region is executed on a copy of the state, and the local cells and the
// exit block's phi values are merged with ite. The heap cannot change inside such a
// region, obligations raised inside it are emitted under the path condition of their
// mini-path.
func (e *Engine) regionMerge(fr *Frame, blk *ssa.BasicBlock, st *State, cond *smt.Term, pos string, k func(*State, []Value)) bool {
	if st.PureDepth > 0 || fr.Pure {
		return false
	}
	if fr.loops == nil {
		fr.loops = e.loopsOf(fr.Fn)
	}
	simple := func(b *ssa.BasicBlock) bool {
		if fr.loops[b] != nil {
			return false
		}
		for _, in := range b.Instrs {
			switch x := in.(type) {
			case *ssa.DebugRef, *ssa.Jump, *ssa.If, *ssa.Convert, *ssa.ChangeType, *ssa.Phi, *ssa.FieldAddr, *ssa.Field, *ssa.Extract:
			case *ssa.BinOp:
				switch x.Op {
				case token.QUO, token.REM:
					return false
				}
			case *ssa.UnOp:
				if x.Op == token.ARROW {
					return false
				}
			case *ssa.Store, *ssa.IndexAddr:
				// stores to cells, heap fields and slice elements: merged below
			default:
				return false
			}
		}
		return true
	}
	inS := map[*ssa.BasicBlock]bool{}
	var order []*ssa.BasicBlock
	exits := map[*ssa.BasicBlock]bool{}
	var walk func(b *ssa.BasicBlock)
	walk = func(b *ssa.BasicBlock) {
		if inS[b] || exits[b] {
			return
		}
		if b == blk || !simple(b) || len(order) >= 12 {
			exits[b] = true
			return
		}
		// a block that can also be entered from outside the region is an exit
		inS[b] = true
		order = append(order, b)
		for _, s := range b.Succs {
			walk(s)
		}
	}
	for _, s := range blk.Succs {
		walk(s)
	}
	// blocks with predecessors outside region∪{blk} must be exits: iterate
	for changed := true; changed; {
		changed = false
		for b := range inS {
			for _, p := range b.Preds {
				if p != blk && !inS[p] {
					delete(inS, b)
					exits[b] = true
					changed = true
					break
				}
			}
		}
	}
	// recompute exits as successors of region blocks (and of blk) outside the region
	ex := map[*ssa.BasicBlock]bool{}
	for _, s := range blk.Succs {
		if !inS[s] {
			ex[s] = true
		}
	}
	for b := range inS {
		for _, s := range b.Succs {
			if !inS[s] {
				ex[s] = true
			}
		}
	}
	if len(ex) != 1 || len(inS) == 0 {
		return false
	}
	var join *ssa.BasicBlock
	for b := range ex {
		join = b
	}
	if join == blk || fr.loops[join] != nil {
		return false
	}
	for _, sp := range e.fd(st, fr).Stops {
		if sp.at == join {
			return false // the enclosing region ends at the same block: let it collect the paths
		}
	}
	// every region block must be reachable only inside the region (checked above) and
	// the region must be acyclic (no loop headers inside: checked in simple)
	type outcome struct {
		cond  *smt.Term
		heap  map[string]*smt.Term
		mem   map[string]*smt.Term
		cells map[*Cell]Value
		phis  []Value
		facts []*smt.Term
	}
	var outs []outcome
	var phis []*ssa.Phi
	for _, in := range join.Instrs {
		if ph, ok := in.(*ssa.Phi); ok {
			phis = append(phis, ph)
		}
	}
	base := len(st.PC)
	runSide := func(succ *ssa.BasicBlock, c *smt.Term, tag string) {
		st2 := st.Clone()
		st2.Branch(c)
		st2.Trace = append(st2.Trace, pos+":"+tag)
		fdd := e.fd(st2, fr)
		fdd.Stops = append(fdd.Stops, stopPoint{at: join, k: func(s3 *State, from *ssa.BasicBlock) {
			var conds, facts []*smt.Term
			for i := base; i < len(s3.PC); i++ {
				if s3.IsBranch[i] {
					conds = append(conds, s3.PC[i])
				} else {
					facts = append(facts, s3.PC[i])
				}
			}
			o := outcome{cond: e.C.And(conds...), cells: s3.Cells, facts: facts, heap: s3.Heap, mem: s3.Mem}
			for _, ph := range phis {
				found := false
				for j, p := range join.Preds {
					if p == from {
						o.phis = append(o.phis, e.val(fr, ph.Edges[j]))
						found = true
						break
					}
				}
				if !found {
					e.fail("region merge: phi without matching predecessor")
				}
			}
			outs = append(outs, o)
		}})
		e.jump(fr, blk, succ, st2, func(*State, []Value) {
			var bs []int
			for b := range inS {
				bs = append(bs, b.Index)
			}
			e.fail("region merge: return inside region (fn %s, if-block %d, region %v, join %d)", fr.Fn, blk.Index, bs, join.Index)
		})
	}
	runSide(blk.Succs[0], cond, "T")
	runSide(blk.Succs[1], e.C.Not(cond), "F")
	if len(outs) == 0 {
		return true // every mini-path ended (panic): nothing continues
	}
	// merge cells
	changed := map[*Cell]bool{}
	for _, o := range outs {
		for cell, nv := range o.cells {
			if ov, ok := st.Cells[cell]; !ok || ov != nv {
				changed[cell] = true
			}
		}
	}
	for cell := range changed {
		var acc Value
		for i := len(outs) - 1; i >= 0; i-- {
			v, ok := outs[i].cells[cell]
			if !ok {
				if ov, ok2 := st.Cells[cell]; ok2 {
					v = ov
				} else {
					v = e.zero(cell.T)
				}
			}
			if acc == nil {
				acc = v
			} else {
				acc = e.iteVal(outs[i].cond, v, acc)
			}
		}
		st.Cells[cell] = acc
	}
	// merge heap and memory arrays
	mergeArr := func(get func(o outcome) map[string]*smt.Term, base map[string]*smt.Term, mk func(key string, like *smt.Term) *smt.Term) {
		keys := map[string]bool{}
		for _, o := range outs {
			for key, a := range get(o) {
				if b, ok := base[key]; !ok || b != a {
					keys[key] = true
				}
			}
		}
		for key := range keys {
			var acc *smt.Term
			for i := len(outs) - 1; i >= 0; i-- {
				a, ok := get(outs[i])[key]
				if !ok {
					if b, ok2 := base[key]; ok2 {
						a = b
					} else {
						// first materialised inside a mini-path: its initial symbol
						for _, o2 := range outs {
							if x, ok3 := get(o2)[key]; ok3 {
								a = mk(key, x)
								break
							}
						}
					}
				}
				if acc == nil {
					acc = a
				} else {
					acc = e.C.Ite(outs[i].cond, a, acc)
				}
			}
			base[key] = acc
		}
	}
	mergeArr(func(o outcome) map[string]*smt.Term { return o.heap }, st.Heap, func(key string, like *smt.Term) *smt.Term {
		return e.C.Var("heap$"+key, like.Sort)
	})
	mergeArr(func(o outcome) map[string]*smt.Term { return o.mem }, st.Mem, func(key string, like *smt.Term) *smt.Term {
		return e.C.Var("mem$"+key, like.Sort)
	})
	for pi, ph := range phis {
		var acc Value
		for i := len(outs) - 1; i >= 0; i-- {
			if acc == nil {
				acc = outs[i].phis[pi]
			} else {
				acc = e.iteVal(outs[i].cond, outs[i].phis[pi], acc)
			}
		}
		fr.Vals[ph] = acc
	}
	for _, o := range outs {
		for _, f := range o.facts {
			if !f.HasBound() {
				st.Assume(e.C.Implies(o.cond, f))
			}
		}
	}
	// the disjunction of the mini-path conditions holds (paths that ended in a panic
	// obligation are excluded from it)
	var ds []*smt.Term
	for _, o := range outs {
		ds = append(ds, o.cond)
	}
	st.Assume(e.C.Or(ds...))
	e.Stats["region-merges"]++
	fdd := e.fd(st, fr)
	fdd.Prev = nil
	e.exec(fr, join, len(phis), st, k)
	return true
}
