package sym

import (
	"os"
	"fmt"
	"go/token"
	"go/types"
	"strings"

	"golang.org/x/tools/go/ssa"

	"gvc/smt"
)

func (e *Engine) call(st *State, fr *Frame, cc *ssa.CallCommon, args []Value, pos token.Pos, rt types.Type, k func(*State, Value)) {
	var fnv Value
	if !cc.IsInvoke() {
		if _, ok := cc.Value.(*ssa.Builtin); !ok {
			fnv = e.val(fr, cc.Value)
		}
	}
	e.callWith(st, fr, cc, fnv, args, pos, rt, k)
}

func pack(res []Value) Value {
	switch len(res) {
	case 0:
		return nil
	case 1:
		return res[0]
	}
	return &TupleV{V: res}
}

func (e *Engine) callWith(st *State, fr *Frame, cc *ssa.CallCommon, fnv Value, args []Value, pos token.Pos, rt types.Type, k func(*State, Value)) {
	if b, ok := cc.Value.(*ssa.Builtin); ok && !cc.IsInvoke() {
		k(st, e.builtin(st, fr, b, cc, args, pos))
		return
	}
	if cc.IsInvoke() {
		recv := args[0]
		if iv, ok := recv.(*IfaceV); ok {
			inner := iv
			for {
				if n, ok := inner.V.(*IfaceV); ok {
					inner = n
					continue
				}
				break
			}
			// bound-method adapters util.ReaderFunc / util.WriterFunc and other concrete types
			ms := e.Prog.MethodSets.MethodSet(inner.T)
			sel := ms.Lookup(cc.Method.Pkg(), cc.Method.Name())
			if sel != nil {
				if m := e.Prog.MethodValue(sel); m != nil {
					nargs := append([]Value{inner.V}, args[1:]...)
					e.callFn(st, fr, m, nil, nargs, pos, k)
					return
				}
			}
		}
		key := e.objKey(cc.Method)
		fc := e.Contracts[key]
		if fc == nil {
			if why, ok := e.NoEffect[cc.Method.Name()]; ok && cc.Method.Type().(*types.Signature).Results().Len() == 0 {
				e.UsedAssumed[key+" (assumed to have no effect: "+why+")"] = true
				k(st, nil)
				return
			}
			e.fail("call of interface method %s without contract at %s", key, e.pos(pos))
		}
		nargs := append([]Value(nil), args...)
		nargs[0] = e.asTerm(st, recv, cc.Value.Type())
		k(st, pack(e.applyContract(st, fr, fc, nargs, pos)))
		return
	}
	switch f := fnv.(type) {
	case *ClosureV:
		fn := f.Fn.(*ssa.Function)
		nargs := args
		if f.Recv != nil {
			nargs = append([]Value{f.Recv}, args...)
		}
		e.callFn(st, fr, fn, f.Bind, nargs, pos, k)
		return
	case *smt.Term:
		// unknown function value: only context.CancelFunc (no effect on library state)
		if tn := typeName(cc.Value.Type()); tn == "context.CancelFunc" {
			e.Stats["cancelfunc-calls"]++
			if st.PureDepth == 0 && !fr.Pure {
				e.recordCall(st, "context.CancelFunc", []Value{f}, nil)
			}
			k(st, nil)
			return
		}
		if fc := e.Contracts["funcvalue:"+typeName(cc.Value.Type())]; fc != nil {
			k(st, pack(e.applyContract(st, fr, fc, args, pos)))
			return
		}
		e.fail("call of unknown function value of type %s at %s", cc.Value.Type(), e.pos(pos))
	}
	e.fail("unsupported call %v at %s", cc, e.pos(pos))
}

func fnPkgPath(fn *ssa.Function) string {
	if fn.Pkg != nil {
		return fn.Pkg.Pkg.Path()
	}
	if fn.Object() != nil && fn.Object().Pkg() != nil {
		return fn.Object().Pkg().Path()
	}
	if p := fn.Parent(); p != nil {
		return fnPkgPath(p)
	}
	if o := fn.Origin(); o != nil && o != fn {
		return fnPkgPath(o)
	}
	return ""
}

func (e *Engine) callFn(st *State, fr *Frame, fn *ssa.Function, bind []Value, args []Value, pos token.Pos, k func(*State, Value)) {
	name := fn.Name()
	if o := fn.Origin(); o != nil {
		name = o.Name()
	}
	pkg := fnPkgPath(fn)
	if ourPkg(pkg) {
		if r, ok := e.intrinsic(st, fr, name, fn, args, pos, k); ok {
			if r != nil {
				k(st, r.v)
			}
			return
		}
	}
	if e.modelCall(st, fr, fn, args, pos, k) {
		return
	}
	if r, ok := e.externIntrinsic(st, fr, fn, args, pos); ok {
		k(st, r)
		return
	}
	// bound method wrappers (x.m as a value) and thunks
	if fn.Synthetic != "" && strings.Contains(fn.Synthetic, "bound method wrapper") {
		// fn has one free variable: the receiver; its body calls the method
		e.inline(st, fr, fn, bind, args, pos, k)
		return
	}
	fc := e.ByFn[fn]
	if fc == nil {
		if o, ok := fn.Object().(*types.Func); ok && o != nil {
			fc = e.Contracts[e.objKey(o)]
		}
	}
	pure := st.PureDepth > 0 || fr.Pure
	if e.Uninterp[fn] {
		k(st, e.ufApp(st, "spec$"+name, fn.Signature.Results(), args))
		return
	}
	if e.Opaque[fn] {
		// opaque spec function: an uninterpreted function of its (flattened) arguments;
		// the definition is attached to ground applications only where the contract of
		// the function under verification asks for it ("opt reveal=name,name")
		t := e.ufApp(st, "spec$"+name, fn.Signature.Results(), args).(*smt.Term)
		reveal := false
		if fr != nil && fr.V != nil && fr.V.FC != nil {
			for _, r := range strings.Split(fr.V.FC.B.Opts["reveal"], ",") {
				if strings.TrimSpace(r) == name {
					reveal = true
				}
			}
		}
		if reveal && !t.HasBound() {
			d := e.evalPure(st, fr, fn, nil, args).(*smt.Term)
			eq := e.C.Eq(t, d)
			if eq.Op == smt.OEq {
				e.DefEqs[eq] = [2]*smt.Term{t, d}
			}
			st.Assume(eq)
		}
		k(st, t)
		return
	}
	if e.GhostAcc[fn] {
		t := e.ufApp(st, "ghost$"+name, fn.Signature.Results(), args).(*smt.Term)
		if len(args) == 1 {
			var a *smt.Term
			switch x := args[0].(type) {
			case *smt.Term:
				a = x
			case *IfaceV:
				a = e.materialize(st, x)
			case *PtrV:
				a = e.ptrTerm(st, x)
			}
			if a != nil {
				key := "ghost$" + name
				if !st.Marked[t] {
					st.Marked[t] = true
					// ghost *state* objects (accessors returning a ghost struct) are injective, non-nil and
					// of their own kind; ghost *relations* to real objects (ghconn: reader -> connection)
					// are plain uninterpreted functions
					isState := false
					if pt, ok := fn.Signature.Results().At(0).Type().(*types.Pointer); ok {
						if n, ok := pt.Elem().(*types.Named); ok && strings.HasPrefix(n.Obj().Name(), "ghost") {
							isState = true
						}
					}
					if !isState {
						k(st, t)
						return
					}
					st.Assume(e.C.Eq(e.C.App(key+"_inv", a.Sort, t), a))
					st.Assume(e.C.Not(e.C.Eq(t, e.i64(0))))
					st.Assume(e.C.Eq(e.C.App("ghost_kind", smt.BV64, t), e.kindConst(key)))
					// a ghost object exists exactly as long as the object it belongs to
					st.Assume(e.C.Eq(e.C.Select(e.allocMap(st), t), e.C.Select(e.allocMap(st), a)))
					if st.Pre != nil {
						st.Assume(e.C.Eq(e.C.Select(e.allocMap(st.Pre), t), e.C.Select(e.allocMap(st.Pre), a)))
					}
				}
			}
		}
		k(st, t)
		return
	}
	if fc != nil && fr.V != nil && fr.V.FC != nil && len(fn.Blocks) > 0 {
		// the function under verification may ask for specific callees to be inlined
		for _, nm := range strings.Split(fr.V.FC.B.Opts["inline"], ",") {
			if strings.TrimSpace(nm) == fc.Key {
				e.inline(st, fr, fn, bind, args, pos, k)
				return
			}
		}
	}
	if fc != nil && fc.ClosureOf != nil {
		// a closure under contract is verified on its own; at a call site its body is executed
		fc = nil
	}
	if fc != nil && !fc.B.Inline {
		if fc.B.Pure {
			k(st, pack(e.applyContract(st, fr, fc, args, pos)))
			return
		}
		if !pure {
			k(st, pack(e.applyContract(st, fr, fc, args, pos)))
			return
		}
		// contract evaluation context: read-only call -> inline the body if we have one
	}
	if len(fn.Blocks) > 0 && (ourPkg(pkg) || pkg == "encoding/binary" || pkg == "math/bits") {
		e.inline(st, fr, fn, bind, args, pos, k)
		return
	}
	if fc != nil {
		k(st, pack(e.applyContract(st, fr, fc, args, pos)))
		return
	}
	// Package-level functions of side-effect-free library packages without a contract
	// (strings.HasSuffix, strconv.Itoa, ...) are treated as uninterpreted pure functions of
	// their arguments: sound for pure functions, and a contract whose truth depends on what
	// the function computes then fails instead of the whole function being undecidable.
	if pureLibPkgs[pkg] && fn.Signature.Recv() == nil {
		ok := true
		for _, a := range args {
			switch a.(type) {
			case *smt.Term, *SliceV, *StructV:
			default:
				ok = false
			}
		}
		res := fn.Signature.Results()
		for i := 0; i < res.Len(); i++ {
			if scalarSort(res.At(i).Type()) == nil {
				ok = false
			}
		}
		if ok && res.Len() >= 1 {
			e.UsedAssumed[e.fnKey(fn)+" (no contract: treated as an uninterpreted pure function of its arguments)"] = true
			k(st, e.ufApp(st, "lib$"+e.fnKey(fn), res, args))
			return
		}
	}
	e.fail("call of %s at %s: no contract and no inlinable body", e.fnKey(fn), e.pos(pos))
}

// pureLibPkgs: library packages whose package-level functions have no side effects.
var pureLibPkgs = map[string]bool{
	"strings": true, "strconv": true, "unicode": true, "unicode/utf8": true, "math": true,
	"path": true, "path/filepath": true, "net/textproto": true, "bytes": true, "sort": false,
}

func (e *Engine) inline(st *State, fr *Frame, fn *ssa.Function, bind []Value, args []Value, pos token.Pos, k func(*State, Value)) {
	if fr.Depth > maxInlineDepth {
		e.fail("inlining too deep at %s (%s)", e.pos(pos), fn)
	}
	for p := fr; p != nil; p = nil {
		_ = p
	}
	nf := e.newFrame(fn, fr, fr.V)
	nf.Free = bind
	nf.Params = args
	if len(fn.Params) != len(args) {
		e.fail("arity mismatch calling %s: %d vs %d", fn, len(fn.Params), len(args))
	}
	e.exec(nf, fn.Blocks[0], 0, st, func(st2 *State, res []Value) {
		delete(st2.FD, nf.ID)
		k(st2, pack(res))
	})
}

type intrRes struct{ v Value }

// intrinsic handles the verifier's own pseudo-functions (declared in spec/prelude.go).
func (e *Engine) intrinsic(st *State, fr *Frame, name string, fn *ssa.Function, args []Value, pos token.Pos, k func(*State, Value)) (*intrRes, bool) {
	c := e.C
	switch name {
	case "oldBegin":
		st.OldDepth++
		return &intrRes{e.i64(0)}, true
	case "oldEnd":
		st.OldDepth--
		return &intrRes{args[1]}, true
	case "forall", "exists":
		lo := args[0].(*smt.Term)
		hi := args[1].(*smt.Term)
		cl := args[2].(*ClosureV)
		bv := c.Bound("i", smt.BV64)
		body := e.evalPure(st, fr, cl.Fn.(*ssa.Function), cl.Bind, []Value{bv}).(*smt.Term)
		rng := c.And(c.Sle(lo, bv), c.Slt(bv, hi))
		if name == "forall" {
			return &intrRes{c.Forall([]*smt.Term{bv}, c.Implies(rng, body))}, true
		}
		return &intrRes{c.Exists([]*smt.Term{bv}, c.And(rng, body))}, true
	case "errIsCE":
		return &intrRes{e.errIsCE(st, e.asTerm(st, args[0], nil))}, true
	case "errCECode":
		return &intrRes{e.errCECode(e.asTerm(st, args[0], nil))}, true
	case "errCEReason":
		return &intrRes{e.errCEReason(e.asTerm(st, args[0], nil))}, true
	case "errIs":
		return &intrRes{e.errIs(st, e.asTerm(st, args[0], nil), e.asTerm(st, args[1], nil))}, true
	case "gvcDistinct7":
		var ts []*smt.Term
		for _, a := range args {
			ts = append(ts, e.chanTermOf(st, a))
		}
		var cs []*smt.Term
		for i := range ts {
			for j := i + 1; j < len(ts); j++ {
				cs = append(cs, c.Not(c.Eq(ts[i], ts[j])))
			}
		}
		return &intrRes{c.And(cs...)}, true
	case "gvcClosed":
		return &intrRes{e.closedNow(st, e.chanTermOf(st, args[0]))}, true
	case "gvcHeld":
		return &intrRes{c.Select(e.chMine(e.rd(st)), e.chanTermOf(st, args[0]))}, true
	case "gvcCloser":
		// gvcCloser(ch): the goroutine executing the function under verification is the one
		// that closes ch (a ghost attribute of (goroutine, channel) that no operation changes;
		// used to state that a goroutine does not wait for a channel only it closes)
		return &intrRes{c.Select(e.heapArr(e.rd(st), "chan.closer", smt.Bool), e.chanTermOf(st, args[0]))}, true
	case "gvcIsArmed":
		return &intrRes{c.Select(e.heapArr(e.rd(st), "chan.armed", smt.Bool), e.chanTermOf(st, args[0]))}, true
	case "gvcArmed":
		return &intrRes{c.Select(e.chLastSent(e.rd(st)), e.chanTermOf(st, args[0]))}, true
	case "gvcSameMap":
		return &intrRes{c.Eq(args[0].(*smt.Term), args[1].(*smt.Term))}, true
	case "gvcMapHas":
		mt := fn.Signature.Params().At(0).Type()
		hk, _, m := e.mapKeys(mt)
		key := e.asTerm(st, args[1], m.Key())
		return &intrRes{c.Select(c.Select(e.heapArr(e.rd(st), hk, smt.Arr(key.Sort, smt.Bool)), args[0].(*smt.Term)), key)}, true
	case "gvcModMap":
		// all entries of the map object may change
		mt := fn.Signature.Params().At(0).Type()
		hk, vk, m := e.mapKeys(mt)
		mref := args[0].(*smt.Term)
		ks := scalarSort(m.Key())
		if ks == nil {
			e.fail("map with non-scalar key")
		}
		keys := map[string]*smt.Sort{hk: smt.Arr(ks, smt.Bool)}
		if s2 := scalarSort(m.Elem()); s2 != nil {
			keys[vk] = smt.Arr(ks, s2)
		} else {
			for _, sfx := range []string{".#reg", ".#off", ".#len", ".#cap"} {
				keys[vk+sfx] = smt.Arr(ks, smt.BV64)
			}
		}
		for key, srt := range keys {
			if st.ModCollect != nil {
				e.heapArr(st, key, srt)
				st.ModCollect.heap[key] = append(st.ModCollect.heap[key], mref)
			} else {
				a := e.heapArr(st, key, srt)
				st.Heap[key] = c.Store(a, mref, c.Fresh("havoc$"+key, srt))
			}
		}
		return &intrRes{nil}, true
	case "gvcMod", "gvcModAll", "gvcModElems", "gvcModChan":
		e.applyMod(st, name, args[0])
		return &intrRes{nil}, true
	case "gvcFresh":
		// gvcFresh(x): x was allocated during the call (not allocated in the pre-state)
		t := e.chanTermOf(st, args[0])
		pre := st.Pre
		if pre == nil {
			pre = st
		}
		return &intrRes{c.And(c.Not(c.Eq(t, e.i64(0))), c.Not(c.Select(e.allocMap(pre), t)))}, true
	case "gvcFreshSlice":
		// the slice is empty or its backing array was allocated during the call
		sv := args[0].(*SliceV)
		pre := st.Pre
		if pre == nil {
			pre = st
		}
		return &intrRes{c.Or(c.Eq(sv.Len, e.i64(0)), c.And(c.Not(c.Eq(sv.Region, e.i64(0))), c.Not(c.Select(e.allocMap(pre), sv.Region))))}, true
	case "gvcRegion":
		return &intrRes{args[0].(*SliceV).Region}, true
	case "gvcOff":
		return &intrRes{args[0].(*SliceV).Off}, true
	case "gvcUnchangedOutside":
		b := args[0].(*SliceV)
		pre := st.Pre
		if pre == nil {
			pre = st
		}
		now := c.Select(e.memArr(st, "u8", smt.BV8), b.Region)
		was := c.Select(e.memArr(pre, "u8", smt.BV8), b.Region)
		a := c.Bound("addr", smt.BV64)
		in := c.And(c.Sle(b.Off, a), c.Slt(a, c.Add(b.Off, b.Len)))
		return &intrRes{c.Forall([]*smt.Term{a}, c.Implies(c.Not(in), c.Eq(c.Select(now, a), c.Select(was, a))))}, true
	case "gvcSuffixOf":
		a, b := args[0].(*SliceV), args[1].(*SliceV)
		d := c.Sub(b.Len, a.Len)
		return &intrRes{c.And(c.Eq(a.Region, b.Region), c.Sle(e.i64(0), a.Len), c.Sle(a.Len, b.Len), c.Eq(a.Off, c.Add(b.Off, d)), c.Eq(a.Cap, c.Sub(b.Cap, d)))}, true
	case "gvcSameRef":
		// identity of two references (function values, channels, pointers) that Go cannot compare
		return &intrRes{c.Eq(e.chanTermOf(st, args[0]), e.chanTermOf(st, args[1]))}, true
	case "gvcCallSeq":
		// position of the last call of f on this path; 0 if there was none (or it lies before a loop cut)
		key, ok := e.litOf(args[0].(*smt.Term))
		if !ok || (!pseudoCallee(key) && e.Contracts[key] == nil) {
			e.fail("gvcCallSeq: %q is not a function under contract", key)
		}
		if st.TraceOpaque > 0 {
			return &intrRes{c.Fresh("callseq$callee$"+key, smt.BV64)}, true
		}
		if st.Calls != nil && st.Calls[key] != nil {
			return &intrRes{e.i64(int64(st.Calls[key].Seq))}, true
		}
		return &intrRes{e.i64(0)}, true
	case "gvcCalls", "gvcCallArg", "gvcCallRes":
		key, ok := e.litOf(args[0].(*smt.Term))
		if !ok {
			e.fail("%s: the callee name must be a string literal", name)
		}
		if !pseudoCallee(key) && e.Contracts[key] == nil {
			e.fail("%s: no function under contract is called %q", name, key)
		}
		var rec *callRec
		if st.Calls != nil {
			rec = st.Calls[key]
		}
		if st.TraceOpaque > 0 {
			// inside a callee's contract: its call trace is not visible to the caller
			if name == "gvcCalls" {
				return &intrRes{c.Fresh("calls$callee$"+key, smt.BV64)}, true
			}
			return &intrRes{e.freshOfType(st, fn.Signature.Results().At(0).Type(), "calleetrace$"+key)}, true
		}
		if name == "gvcCalls" {
			if rec != nil {
				return &intrRes{rec.N}, true
			}
			if st.Calls != nil && st.Calls["$havoc"] != nil {
				// not called since the loop cut, unknown before it (one unknown per path, so
				// that a loop invariant can constrain it)
				return &intrRes{c.Var(fmt.Sprintf("calls$%s$cut%d", key, st.Calls["$havoc"].Seq), smt.BV64)}, true
			}
			return &intrRes{e.i64(0)}, true
		}
		rt := fn.Signature.Results().At(0).Type()
		it := args[1].(*smt.Term)
		idx, isC := it.Val, it.IsConst()
		if !isC {
			e.fail("%s: the index must be a constant", name)
		}
		var vs []Value
		if rec != nil {
			vs = rec.Args
			if name == "gvcCallRes" {
				vs = rec.Res
			}
		}
		if rec == nil || int(idx) >= len(vs) || vs[idx] == nil {
			// no such call on this path: an arbitrary value
			return &intrRes{e.freshOfType(st, rt, "nocall$"+key)}, true
		}
		return &intrRes{e.coerceArg(st, vs[idx], rt)}, true
	case "gvcSameSlice":
		a, b := args[0].(*SliceV), args[1].(*SliceV)
		return &intrRes{c.And(c.Eq(a.Region, b.Region), c.Eq(a.Off, b.Off), c.Eq(a.Len, b.Len), c.Eq(a.Cap, b.Cap))}, true
	}
	return nil, false
}

// ufApp applies an uninterpreted function to flattened scalar arguments.
func (e *Engine) ufApp(st *State, name string, results *types.Tuple, args []Value) Value {
	var ts []*smt.Term
	for _, a := range args {
		switch x := a.(type) {
		case *smt.Term:
			ts = append(ts, x)
		case *SliceV:
			ts = append(ts, x.Region, x.Off, x.Len)
		case *StructV:
			var fl func(v Value)
			fl = func(v Value) {
				switch y := v.(type) {
				case *smt.Term:
					ts = append(ts, y)
				case *StructV:
					for _, f := range y.F {
						fl(f)
					}
				case *SliceV:
					ts = append(ts, y.Region, y.Off, y.Len)
				default:
					e.fail("uninterpreted function %s: unsupported argument %T", name, v)
				}
			}
			fl(x)
		case *IfaceV:
			ts = append(ts, e.materialize(st, x))
		case *PtrV:
			ts = append(ts, e.ptrTerm(st, x))
		default:
			e.fail("uninterpreted function %s: unsupported argument %T", name, a)
		}
	}
	mk := func(i int, t types.Type) Value {
		s := scalarSort(t)
		if s == nil {
			e.fail("uninterpreted function %s: non-scalar result %s", name, t)
		}
		n := name
		if i > 0 {
			n = fmt.Sprintf("%s#%d", name, i)
		}
		return e.C.App(n, s, ts...)
	}
	if results.Len() == 1 {
		return mk(0, results.At(0).Type())
	}
	var out []Value
	for i := 0; i < results.Len(); i++ {
		out = append(out, mk(i, results.At(i).Type()))
	}
	return &TupleV{V: out}
}

// ---------- pure evaluation ----------

// evalPure runs a loop-free function on a scratch copy of the state and merges the
// results of all paths into one value (ite-chain). No obligations are emitted.
func (e *Engine) evalPure(st *State, fr *Frame, fn *ssa.Function, bind []Value, args []Value) Value {
	if len(fn.Blocks) == 0 {
		e.fail("pure evaluation of body-less function %s", fn)
	}
	scratch := st.Clone()
	scratch.PureDepth++
	base := len(scratch.PC)
	nf := e.newFrame(fn, fr, nil)
	if fr != nil {
		nf.V = fr.V
	}
	nf.Pure = true
	nf.Free = bind
	nf.Params = args
	type pr struct {
		cond  *smt.Term
		conds []*smt.Term
		v     Value
	}
	var outs []pr
	sideSeen := map[*smt.Term]bool{}
	e.exec(nf, fn.Blocks[0], 0, scratch, func(s2 *State, res []Value) {
		var conds []*smt.Term
		for i := base; i < len(s2.PC); i++ {
			if s2.IsBranch[i] {
				conds = append(conds, s2.PC[i])
			} else if !sideSeen[s2.PC[i]] {
				// facts assumed while evaluating (axiom instances of uninterpreted symbols,
				// well-formedness of loaded slices) hold unconditionally: hand them to the caller
				sideSeen[s2.PC[i]] = true
				if !s2.PC[i].HasBound() {
					st.Assume(s2.PC[i])
				}
			}
		}
		outs = append(outs, pr{e.C.And(conds...), conds, pack(res)})
	})
	if len(outs) == 0 {
		e.fail("pure function %s has no returning path", fn)
	}
	// boolean results: rebuild the decision tree of the branch literals (paths come in
	// depth-first order and share prefixes), so that common conjuncts are factored out
	// by the smart constructor of ite and predicates like connInv stay conjunctions
	allBool := true
	for _, o := range outs {
		if t, ok := o.v.(*smt.Term); !ok || t.Sort != smt.Bool {
			allBool = false
			break
		}
	}
	if allBool {
		var build func(lo, hi, depth int) *smt.Term
		build = func(lo, hi, depth int) *smt.Term {
			if hi-lo == 1 {
				rest := outs[lo].conds[min(depth, len(outs[lo].conds)):]
				return e.C.And(append(append([]*smt.Term(nil), rest...), outs[lo].v.(*smt.Term))...)
			}
			if depth >= len(outs[lo].conds) {
				// should not happen (distinct paths differ in some literal); fall back
				var ds []*smt.Term
				for i := lo; i < hi; i++ {
					ds = append(ds, e.C.And(e.C.And(outs[i].conds[min(depth, len(outs[i].conds)):]...), outs[i].v.(*smt.Term)))
				}
				return e.C.Or(ds...)
			}
			l := outs[lo].conds[depth]
			mid := lo
			for mid < hi && depth < len(outs[mid].conds) && outs[mid].conds[depth] == l {
				mid++
			}
			if mid == hi {
				return e.C.And(l, build(lo, hi, depth+1))
			}
			// the other side must start with the negation
			nl := e.C.Not(l)
			for i := mid; i < hi; i++ {
				if depth >= len(outs[i].conds) || outs[i].conds[depth] != nl {
					var ds []*smt.Term
					for j := lo; j < hi; j++ {
						ds = append(ds, e.C.And(e.C.And(outs[j].conds[min(depth, len(outs[j].conds)):]...), outs[j].v.(*smt.Term)))
					}
					return e.C.Or(ds...)
				}
			}
			return e.C.Ite(l, build(lo, mid, depth+1), build(mid, hi, depth+1))
		}
		r := build(0, len(outs), 0)
		if r.IsFalse() && os.Getenv("GVC_DEBUG_FALSE") != "" {
			fmt.Fprintf(os.Stderr, "EVALPURE-FALSE %s: %d paths\n", fn.Name(), len(outs))
			for _, o := range outs {
				var cs []string
				for _, cnd := range o.conds {
					cs = append(cs, e.C.Show(cnd))
				}
				fmt.Fprintf(os.Stderr, "   conds=%v  v=%s\n", cs, e.C.Show(o.v.(*smt.Term)))
			}
		}
		return r
	}
	res := outs[len(outs)-1].v
	for i := len(outs) - 2; i >= 0; i-- {
		res = e.iteVal(outs[i].cond, outs[i].v, res)
	}
	return res
}

func (e *Engine) iteVal(c *smt.Term, a, b Value) Value {
	switch x := a.(type) {
	case *smt.Term:
		y, ok := b.(*smt.Term)
		if !ok {
			e.fail("ite of %T and %T", a, b)
		}
		return e.C.Ite(c, x, y)
	case *SliceV:
		y := b.(*SliceV)
		if x.Conc != nil || y.Conc != nil {
			e.fail("ite of executor-level slices")
		}
		return &SliceV{Region: e.C.Ite(c, x.Region, y.Region), Off: e.C.Ite(c, x.Off, y.Off), Len: e.C.Ite(c, x.Len, y.Len), Cap: e.C.Ite(c, x.Cap, y.Cap), Elem: x.Elem}
	case *StructV:
		y := b.(*StructV)
		out := &StructV{T: x.T}
		for i := range x.F {
			out.F = append(out.F, e.iteVal(c, x.F[i], y.F[i]))
		}
		return out
	case *TupleV:
		y := b.(*TupleV)
		out := &TupleV{}
		for i := range x.V {
			out.V = append(out.V, e.iteVal(c, x.V[i], y.V[i]))
		}
		return out
	case nil:
		return nil
	}
	e.fail("ite of %T", a)
	return nil
}

// ---------- clause evaluation ----------

type clauseEnv struct {
	params  []Value // entry values of the target's parameters (receiver first)
	results []Value
	locals  func(v VarRef) Value
}

func (e *Engine) evalClause(st *State, fr *Frame, cf *ClauseFn, env clauseEnv) Value {
	var args []Value
	for _, v := range cf.Vars {
		switch v.Kind {
		case "param", "old":
			if v.Idx >= len(env.params) {
				e.fail("clause %s: missing parameter %s", cf.Name, v.Name)
			}
			args = append(args, e.coerceArg(st, env.params[v.Idx], v.Type))
		case "result":
			if v.Idx >= len(env.results) {
				e.fail("clause %s: missing result %s", cf.Name, v.Name)
			}
			args = append(args, e.coerceArg(st, env.results[v.Idx], v.Type))
		default:
			args = append(args, env.locals(v))
		}
	}
	if cf.Fn == nil {
		e.fail("clause %s not bound", cf.Name)
	}
	return e.evalPure(st, fr, cf.Fn, nil, args)
}

// coerceArg adapts executor-level values to what a clause function expects.
func (e *Engine) coerceArg(st *State, v Value, t types.Type) Value {
	if v == nil {
		return e.zero(t)
	}
	if scalarSort(t) != nil {
		switch v.(type) {
		case *IfaceV, *PtrV:
			return e.asTerm(st, v, t)
		}
	}
	return v
}

// ---------- modifies ----------

type modSet struct {
	heap map[string][]*smt.Term // key -> objects (nil entry = all objects)
	mem  map[string][]*smt.Term // key -> regions
	// the arrays materialised while collecting (a footprint function with branches runs on
	// cloned states, so they are remembered here)
	harr map[string]*smt.Term
	marr map[string]*smt.Term
	// condition (branch decisions inside a footprint function) under which each item applies;
	// used when a callee's modifies set is applied, ignored (= true) for frame checks
	hcond  map[string][]*smt.Term
	mcond  map[string][]*smt.Term
	pcBase int
}

func (e *Engine) leafKeys(prefix string, t types.Type) []Leaf {
	var out []Leaf
	for _, l := range flatten(t) {
		out = append(out, Leaf{prefix + l.Path, l.Sort, l.T})
	}
	return out
}

// applyMod performs the havoc for one modifies item on st. When st.modCollect is
// set the item is recorded instead.
func (e *Engine) applyMod(st *State, kind string, arg Value) {
	c := e.C
	rec := st.ModCollect
	havocHeap := func(key string, s *smt.Sort, obj *smt.Term) {
		if rec != nil {
			a := e.heapArr(st, key, s)
			if rec.harr == nil {
				rec.harr = map[string]*smt.Term{}
			}
			if rec.harr[key] == nil {
				rec.harr[key] = a
			}
			rec.heap[key] = append(rec.heap[key], obj)
			if rec.hcond == nil {
				rec.hcond = map[string][]*smt.Term{}
			}
			rec.hcond[key] = append(rec.hcond[key], e.branchCondSince(st, rec.pcBase))
			return
		}
		a := e.heapArr(st, key, s)
		st.Heap[key] = c.Store(a, obj, c.Fresh("havoc$"+key, s))
	}
	havocRegion := func(key string, s *smt.Sort, reg *smt.Term) {
		if rec != nil {
			m := e.memArr(st, key, s)
			if rec.marr == nil {
				rec.marr = map[string]*smt.Term{}
			}
			if rec.marr[key] == nil {
				rec.marr[key] = m
			}
			rec.mem[key] = append(rec.mem[key], reg)
			if rec.mcond == nil {
				rec.mcond = map[string][]*smt.Term{}
			}
			rec.mcond[key] = append(rec.mcond[key], e.branchCondSince(st, rec.pcBase))
			return
		}
		m := e.memArr(st, key, s)
		st.Mem[key] = c.Store(m, reg, c.Fresh("havoc$mem$"+key, smt.Arr(smt.BV64, s)))
	}
	var modPtr func(p *PtrV)
	modPtr = func(p *PtrV) {
		switch p.Kind {
		case PField:
			for _, l := range e.leafKeys(p.Key, p.T) {
				if l.Sort == nil {
					// embedded array: its region content
					at := under(l.T).(*types.Array)
					key := strings.TrimSuffix(l.Path, ".#arr")
					for _, el := range e.leafKeys(elemKey(at.Elem()), at.Elem()) {
						havocRegion(el.Path, el.Sort, e.regionOf(key, p.Obj))
					}
					continue
				}
				havocHeap(l.Path, l.Sort, p.Obj)
			}
		case PElem:
			e.fail("modifies of a single slice element is not supported; use bytes(s)")
		case PGlobal:
			for _, l := range e.leafKeys("g:"+p.Key, p.T) {
				if l.Sort != nil {
					havocHeap(l.Path, l.Sort, e.i64(0))
				}
			}
		case PCell:
			e.fail("modifies of a local variable")
		}
	}
	switch kind {
	case "gvcMod":
		switch p := arg.(type) {
		case *PtrV:
			modPtr(p)
		case *smt.Term:
			e.fail("gvcMod of an opaque pointer")
		}
	case "gvcModAll":
		switch p := arg.(type) {
		case *smt.Term:
			e.fail("gvcModAll needs a typed pointer")
		case *PtrV:
			modPtr(p)
		}
	case "gvcModElems":
		s := arg.(*SliceV)
		for _, l := range e.leafKeys(elemKey(s.Elem), s.Elem) {
			havocRegion(l.Path, l.Sort, s.Region)
		}
	case "gvcModChan":
		ch := e.chanTermOf(st, arg)
		havocHeap("chan.mine", smt.Bool, ch)
		havocHeap("chan.lastsent", smt.BV64, ch)
		havocHeap("chan.armed", smt.Bool, ch)

	case "gvcModMap":
		m := arg.(*smt.Term)
		for _, key := range sortedKeys(st.Heap) {
			if strings.HasPrefix(key, "map:") {
				a := st.Heap[key]
				havocHeap(key, a.Sort.Elem, m)
			}
		}
	}
}

// evalModifies runs the modifies clauses of fc (in the current = pre state) either
// havocking st or collecting the allowed set.
func (e *Engine) evalModifies(st *State, fr *Frame, fc *FnContract, args []Value, collect *modSet) {
	for _, cf := range fc.Modifies {
		e.runModFn(st, fr, cf, clauseEnv{params: args}, collect)
	}
}

func (e *Engine) runModFn(st *State, fr *Frame, cf *ClauseFn, env clauseEnv, collect *modSet) {
	var margs []Value
	for _, v := range cf.Vars {
		switch v.Kind {
		case "param", "old":
			margs = append(margs, e.coerceArg(st, env.params[v.Idx], v.Type))
		default:
			margs = append(margs, env.locals(v))
		}
	}
	// The modifies function reads pointers from the pre-state but havocs st itself:
	// evaluate against a frozen copy for reads.
	frozen := st.Clone()
	frozen.PureDepth++
	nf := e.newFrame(cf.Fn, fr, nil)
	if fr != nil {
		nf.V = fr.V
	}
	nf.Pure = true
	nf.Params = margs
	rec := collect
	if rec == nil {
		rec = &modSet{heap: map[string][]*smt.Term{}, mem: map[string][]*smt.Term{}}
	}
	frozen.ModCollect = rec
	base := len(frozen.PC)
	rec.pcBase = base
	e.exec(nf, cf.Fn.Blocks[0], 0, frozen, func(s2 *State, _ []Value) {
		// axiom instances created while evaluating the locations (ghost accessors,
		// region injectivity) are facts of the caller's state as well
		for i := base; i < len(s2.PC); i++ {
			if !s2.IsBranch[i] && !s2.PC[i].HasBound() {
				st.Assume(s2.PC[i])
			}
		}
	})
	if collect != nil {
		return
	}
	// apply the collected havocs to st
	c := e.C
	for _, key := range sortedKeysT(rec.heap) {
		for i, obj := range rec.heap[key] {
			a := st.Heap[key]
			if a == nil {
				a = frozen.Heap[key]
				if a == nil {
					a = rec.harr[key]
				}
				if a == nil {
					e.fail("modifies: unknown heap key %s", key)
				}
			}
			nv := c.Fresh("havoc$"+key, a.Sort.Elem)
			if cs := rec.hcond[key]; i < len(cs) && cs[i] != nil && !cs[i].IsTrue() {
				nv = c.Ite(cs[i], nv, c.Select(a, obj))
			}
			st.Heap[key] = c.Store(a, obj, nv)
		}
	}
	for _, key := range sortedKeysT(rec.mem) {
		for i, reg := range rec.mem[key] {
			m := st.Mem[key]
			if m == nil {
				m = frozen.Mem[key]
				if m == nil {
					m = rec.marr[key]
				}
				if m == nil {
					e.fail("modifies: unknown mem key %s", key)
				}
			}
			nv := c.Fresh("havoc$mem$"+key, m.Sort.Elem)
			if cs := rec.mcond[key]; i < len(cs) && cs[i] != nil && !cs[i].IsTrue() {
				nv = c.Ite(cs[i], nv, c.Select(m, reg))
			}
			st.Mem[key] = c.Store(m, reg, nv)
		}
	}
}

func sortedKeysT(m map[string][]*smt.Term) []string {
	var ks []string
	for k := range m {
		ks = append(ks, k)
	}
	for i := 0; i < len(ks); i++ {
		for j := i + 1; j < len(ks); j++ {
			if ks[j] < ks[i] {
				ks[i], ks[j] = ks[j], ks[i]
			}
		}
	}
	return ks
}

// ---------- contract application at a call site ----------

func (e *Engine) freshOfType(st *State, t types.Type, name string) Value {
	c := e.C
	if s := scalarSort(t); s != nil {
		v := c.Fresh(name, s)
		return v
	}
	switch u := under(t).(type) {
	case *types.Slice:
		sv := &SliceV{Region: c.Fresh(name+".reg", smt.BV64), Off: c.Fresh(name+".off", smt.BV64), Len: c.Fresh(name+".len", smt.BV64), Cap: c.Fresh(name+".cap", smt.BV64), Elem: u.Elem()}
		st.Assume(e.validSlice(sv))
		return sv
	case *types.Struct:
		out := &StructV{T: t}
		for i := 0; i < u.NumFields(); i++ {
			out.F = append(out.F, e.freshOfType(st, u.Field(i).Type(), name+"."+u.Field(i).Name()))
		}
		return out
	case *types.Array:
		a := &ArrV{Elem: u.Elem()}
		if u.Len() > 256 {
			e.fail("fresh value of large array type %s", t)
		}
		for i := int64(0); i < u.Len(); i++ {
			a.Elems = append(a.Elems, e.freshOfType(st, u.Elem(), fmt.Sprintf("%s[%d]", name, i)))
		}
		return a
	case *types.Tuple:
		tv := &TupleV{}
		for i := 0; i < u.Len(); i++ {
			tv.V = append(tv.V, e.freshOfType(st, u.At(i).Type(), fmt.Sprintf("%s#%d", name, i)))
		}
		return tv
	}
	return c.Fresh(name, smt.BV64)
}

func (e *Engine) applyContract(st *State, fr *Frame, fc *FnContract, args []Value, pos token.Pos) []Value {
	checks := st.PureDepth == 0 && !fr.Pure
	if fc.B.Assumed {
		e.UsedAssumed[fc.Key] = true
	}
	// normalise arguments
	nargs := make([]Value, len(args))
	for i, a := range args {
		if i < len(fc.PTypes) {
			nargs[i] = e.coerceArg(st, a, fc.PTypes[i])
		} else {
			nargs[i] = a
		}
	}
	env := clauseEnv{params: nargs}
	if checks {
		for _, rq := range fc.Requires {
			g := e.evalClause(st, fr, rq, env).(*smt.Term)
			e.obligeCall(st, fr, fc, rq, g, e.pos(pos))
		}
	}
	var results []Value
	if fc.B.Pure {
		r := e.ufApp(st, "pure$"+fc.Key, types.NewTuple(varsOf(fc.RTypes)...), nargs)
		if tv, ok := r.(*TupleV); ok {
			results = tv.V
		} else {
			results = []Value{r}
		}
		post := st
		env.results = results
		for _, en := range fc.Ensures {
			post.Assume(e.evalClause(post, fr, en, env).(*smt.Term))
		}
		return results
	}
	pre := st.Clone()
	e.evalModifies(st, fr, fc, nargs, nil)
	// the environment may have closed channels while the callee ran
	e.envStepAll(st)
	for i, rt := range fc.RTypes {
		results = append(results, e.freshOfType(st, rt, fmt.Sprintf("ret$%s$%s", fc.Key, fc.RNames[i])))
	}
	env.results = results
	// ensures are evaluated in the post-state with old() referring to the call's pre-state
	savedPre := st.Pre
	st.Pre = pre
	// call-trace expressions in a callee's postcondition talk about the callee's own path
	st.TraceOpaque++
	defer func() { st.TraceOpaque-- }()
	for _, en := range fc.Ensures {
		t := e.evalClause(st, fr, en, env).(*smt.Term)
		if t.IsFalse() && os.Getenv("GVC_DEBUG_FALSE") != "" {
			fmt.Fprintf(os.Stderr, "ENSURES-FALSE %s [%s] at %s\n", fc.Key, en.C.Label, e.pos(pos))
		}
		st.Assume(t)
	}
	st.Pre = savedPre
	// whatever a call returns exists afterwards: non-nil pointers and the backing arrays of
	// slices among the results are allocated in the post-state (objects the contract calls
	// fresh were not allocated before the call, so without this a later load of such a
	// reference from the heap - which assumes "nil or allocated" - would be contradictory)
	var mark func(v Value, t types.Type)
	mark = func(v Value, t types.Type) {
		switch x := v.(type) {
		case *smt.Term:
			if x.Sort != smt.BV64 {
				return
			}
			switch under(t).(type) {
			case *types.Pointer, *types.Map, *types.Chan:
				a := e.allocMap(st)
				st.Heap["$alloc"] = e.C.Ite(e.C.Eq(x, e.i64(0)), a, e.C.Store(a, x, e.C.True()))
			}
		case *SliceV:
			if x.Conc == nil {
				a := e.allocMap(st)
				st.Heap["$alloc"] = e.C.Ite(e.C.Eq(x.Region, e.i64(0)), a, e.C.Store(a, x.Region, e.C.True()))
			}
		}
	}
	for i, r := range results {
		if i < len(fc.RTypes) && os.Getenv("GVC_NO_MARK") == "" {
			mark(r, fc.RTypes[i])
		}
	}
	e.Stats["contract-applications"]++
	if checks {
		e.recordCall(st, fc.Key, nargs, results)
	}
	return results
}

// recordCall appends to the call-trace ghost of the current path.
func (e *Engine) recordCall(st *State, key string, args, res []Value) {
	if st.Calls == nil {
		st.Calls = map[string]*callRec{}
	}
	n := e.i64(0)
	if old := st.Calls[key]; old != nil {
		n = old.N
	}
	st.CallSeq++
	st.Calls[key] = &callRec{Seq: st.CallSeq, N: e.C.Add(n, e.i64(1)), Args: append([]Value(nil), args...), Res: append([]Value(nil), res...)}
}

// havocCalls: after a loop cut the number of calls made so far is unknown and the "last
// call" of every callee is forgotten.
func (e *Engine) havocCalls(st *State) {
	if st.Calls == nil {
		st.Calls = map[string]*callRec{}
	}
	e.cutCount++
	for k := range st.Calls {
		st.Calls[k] = &callRec{N: e.C.Var(fmt.Sprintf("calls$%s$cut%d", k, e.cutCount), smt.BV64)}
	}
	st.Calls["$havoc"] = &callRec{N: e.i64(0), Seq: e.cutCount}
}

func varsOf(ts []types.Type) []*types.Var {
	var out []*types.Var
	for _, t := range ts {
		out = append(out, types.NewVar(token.NoPos, nil, "", t))
	}
	return out
}

func (e *Engine) obligeCall(st *State, fr *Frame, fc *FnContract, rq *ClauseFn, g *smt.Term, pos string) {
	e.obligeNamed(st, fr, "requires-at-call", fc.Key+":"+rq.C.Label, g, pos, rq.C.Tags, e.fnKey(fr.Fn))
}


// modelCall: executor-side models of library calls that invoke a callback of the caller
// (assumed behaviour, listed in the evidence):
//
//	json.NewEncoder(w)            remembers w
//	(*json.Encoder).Encode(v)     either fails without writing (the value cannot be marshalled)
//	                              or calls w.Write exactly once with the encoding (a fresh
//	                              buffer of arbitrary content and length >= 1) and returns that
//	                              call's error
func (e *Engine) modelCall(st *State, fr *Frame, fn *ssa.Function, args []Value, pos token.Pos, k func(*State, Value)) bool {
	if fnPkgPath(fn) != "encoding/json" {
		return false
	}
	switch e.fnKey(fn) {
	case "json.NewEncoder":
		t := e.freshRef(st, "jsonenc")
		if st.EncW == nil {
			st.EncW = map[*smt.Term]Value{}
		} else {
			m := make(map[*smt.Term]Value, len(st.EncW)+1)
			for a, b := range st.EncW {
				m[a] = b
			}
			st.EncW = m
		}
		st.EncW[t] = args[0]
		e.UsedAssumed["encoding/json.NewEncoder / (*Encoder).Encode (model: Encode fails without writing or calls the writer's Write exactly once with the encoding)"] = true
		k(st, t)
		return true
	case "(*json.Encoder).Encode":
		rt, ok := args[0].(*smt.Term)
		var w Value
		if ok && st.EncW != nil {
			w = st.EncW[rt]
		}
		iv, isI := w.(*IfaceV)
		if wt, isT := w.(*smt.Term); isT && !isI {
			// a writer whose dynamic type is not known here (e.g. the result of a call): the
			// single Write goes through the io.Writer contract
			fcw := e.Contracts["(io.Writer).Write"]
			if fcw == nil {
				e.fail("(*json.Encoder).Encode at %s: no contract for (io.Writer).Write", e.pos(pos))
			}
			st1 := st.Clone()
			st1.Trace = append(st1.Trace, e.pos(pos)+":marshal-fails")
			k(st1, e.newError(st1, nil, nil, "json-marshal@"+e.pos(pos)))
			st.Trace = append(st.Trace, e.pos(pos)+":one-write")
			ln := e.C.Fresh("jsonlen", smt.BV64)
			st.Assume(e.C.Slt(e.i64(0), ln))
			st.Assume(e.C.Slt(ln, e.i64(1<<55)))
			data := e.allocSlice(st, types.Typ[types.Uint8], ln, ln, "json-encoding")
			res := e.applyContract(st, fr, fcw, []Value{wt, data}, pos)
			k(st, res[1])
			return true
		}
		if !isI {
			e.fail("(*json.Encoder).Encode at %s: the encoder's writer is not known on this path", e.pos(pos))
		}
		// branch 1: marshalling fails, nothing is written
		st1 := st.Clone()
		st1.Trace = append(st1.Trace, e.pos(pos)+":marshal-fails")
		k(st1, e.newError(st1, nil, nil, "json-marshal@"+e.pos(pos)))
		// branch 2: exactly one Write of the encoding
		st.Trace = append(st.Trace, e.pos(pos)+":one-write")
		ln := e.C.Fresh("jsonlen", smt.BV64)
		st.Assume(e.C.Slt(e.i64(0), ln))
		st.Assume(e.C.Slt(ln, e.i64(1<<55)))
		data := e.allocSlice(st, types.Typ[types.Uint8], ln, ln, "json-encoding")
		inner := iv
		for {
			if n, ok := inner.V.(*IfaceV); ok {
				inner = n
				continue
			}
			break
		}
		ms := e.Prog.MethodSets.MethodSet(inner.T)
		var sel *types.Selection
		for i := 0; i < ms.Len(); i++ {
			if ms.At(i).Obj().Name() == "Write" {
				sel = ms.At(i)
			}
		}
		if sel == nil {
			e.fail("(*json.Encoder).Encode at %s: writer of type %s has no Write method", e.pos(pos), inner.T)
		}
		m := e.Prog.MethodValue(sel)
		e.callFn(st, fr, m, nil, []Value{inner.V, data}, pos, func(st2 *State, r Value) {
			tv, ok := r.(*TupleV)
			if !ok || len(tv.V) != 2 {
				e.fail("Write model: unexpected result")
			}
			k(st2, tv.V[1])
		})
		return true
	}
	return false
}


// pseudoCallee: events that are recorded in the call trace although they are not calls of a
// function under contract: calls of a context.CancelFunc value (argument 0: the function),
// channel receives / sends (argument 0: the channel), map updates (map, key, value),
// deletes (map, key) and lookups (map, key; results: value, present).
func pseudoCallee(key string) bool {
	switch key {
	case "context.CancelFunc", "chan.recv", "chan.send", "map.update", "map.delete", "map.lookup":
		return true
	}
	return false
}


// branchCondSince: conjunction of the branch decisions recorded on st since index base.
func (e *Engine) branchCondSince(st *State, base int) *smt.Term {
	var cs []*smt.Term
	for i := base; i < len(st.PC); i++ {
		if st.IsBranch[i] {
			cs = append(cs, st.PC[i])
		}
	}
	if len(cs) == 0 {
		return nil
	}
	return e.C.And(cs...)
}
