package sym

import (
	"fmt"
	"go/constant"
	"go/token"
	"go/types"
	"strings"

	"golang.org/x/tools/go/ssa"

	"gvc/smt"
)

type Obligation struct {
	ID      int
	Name    string // stable name: fn/kind/label/...
	Fn      string
	Kind    string // ensures | requires-at-call | invariant-init | invariant-preserve | decreases | safety:<what> | frame | lemma | cover
	Label   string
	Callee  string
	Hyps    []*smt.Term
	Goal    *smt.Term
	Pos     string
	Path    []string
	Tags    []string
	Ord     int // ordinal among obligations with the same base name
	Result  *smt.Result
	Status  string
	Skolems []*smt.Term
	LiveArrs []*smt.Term // versioned arrays occurring in the state at the obligation
	Inputs  []NamedTerm // replay inputs: named terms over the entry state
	unfolded bool
}

type NamedTerm struct {
	Name string
	T    *smt.Term
}

type deferred struct {
	Call *ssa.CallCommon
	Args []Value
	Fn   Value
	Pos  token.Pos
}

type frameData struct {
	Defers      []deferred
	ActiveLoops map[*ssa.BasicBlock]bool
	Prev        *ssa.BasicBlock
	// region merging: a jump to Stops[top].at ends the current mini-path
	Stops []stopPoint
}

type stopPoint struct {
	at *ssa.BasicBlock
	k  func(st *State, from *ssa.BasicBlock)
}

type loopInfo struct {
	Ord    int
	Header *ssa.BasicBlock
	Blocks map[*ssa.BasicBlock]bool
	LC     *LoopContract
}

type VerifyCtx struct {
	Fn      *ssa.Function
	FC      *FnContract
	Pre     *State
	Entry   []Value
	Tags    []string
	Loops   map[*ssa.BasicBlock]*loopInfo
	nOblig  map[string]int
	Returns int
	Paths   int
	Inputs  []NamedTerm
}

type Frame struct {
	ID     int
	Fn     *ssa.Function
	Vals   map[ssa.Value]Value
	Free   []Value
	Depth  int
	Pure   bool
	V      *VerifyCtx
	Params []Value
	// number of captured-variable values that precede the SSA parameters in Params
	// (closures verified on their own)
	POff   int
	loops  map[*ssa.BasicBlock]*loopInfo
}

type execError struct{ msg string }

func (e *Engine) fail(format string, a ...interface{}) {
	panic(execError{fmt.Sprintf(format, a...)})
}

// ---------- heap / memory ----------

func (e *Engine) heapArr(st *State, key string, leaf *smt.Sort) *smt.Term {
	if a, ok := st.Heap[key]; ok {
		return a
	}
	a := e.C.Var("heap$"+key, smt.Arr(smt.BV64, leaf))
	st.Heap[key] = a
	return a
}

func (e *Engine) memArr(st *State, key string, leaf *smt.Sort) *smt.Term {
	if a, ok := st.Mem[key]; ok {
		return a
	}
	a := e.C.Var("mem$"+key, smt.Arr(smt.BV64, smt.Arr(smt.BV64, leaf)))
	st.Mem[key] = a
	return a
}

func (e *Engine) rd(st *State) *State {
	if st.OldDepth > 0 && st.Pre != nil {
		return st.Pre
	}
	return st
}

func (e *Engine) i64(v int64) *smt.Term { return e.C.BVC(64, uint64(v)) }

func (e *Engine) validSlice(s *SliceV) *smt.Term {
	c := e.C
	lim := e.i64(1 << 56)
	// real slices never point into ghost regions (the ghost output streams)
	notGhost := c.Not(c.App("region_ghost", smt.Bool, s.Region))
	return c.And(c.Sle(e.i64(0), s.Len), c.Sle(s.Len, s.Cap), c.Sle(s.Cap, lim), c.Sle(e.i64(0), s.Off), c.Sle(s.Off, lim), notGhost)
}

func (e *Engine) nilSlice(elem types.Type) *SliceV {
	z := e.i64(0)
	return &SliceV{Region: z, Off: z, Len: z, Cap: z, Elem: elem}
}

// loadAt reads a value of type t located at heap object obj under key.
func (e *Engine) loadHeap(st *State, obj *smt.Term, key string, t types.Type) Value {
	rs := e.rd(st)
	if s := scalarSort(t); s != nil {
		v := e.C.Select(e.heapArr(rs, key, s), obj)
		if s == smt.BV64 && len(st.Fresh) > 0 {
			switch under(t).(type) {
			case *types.Pointer, *types.Chan, *types.Map:
				// references read from the heap were allocated before anything allocated later
				e.preexistingBeforeFresh(st, v)
			}
		}
		return v
	}
	switch u := under(t).(type) {
	case *types.Slice:
		sv := &SliceV{Elem: u.Elem()}
		sv.Region = e.C.Select(e.heapArr(rs, key+".#reg", smt.BV64), obj)
		sv.Off = e.C.Select(e.heapArr(rs, key+".#off", smt.BV64), obj)
		sv.Len = e.C.Select(e.heapArr(rs, key+".#len", smt.BV64), obj)
		sv.Cap = e.C.Select(e.heapArr(rs, key+".#cap", smt.BV64), obj)
		st.Assume(e.validSlice(sv))
		e.preexisting(st, sv.Region)
		if len(st.Fresh) > 0 {
			// like references: a backing array read from the initial heap at an object that
			// existed at entry is none of the regions allocated since
			e.preexistingBeforeFresh(st, sv.Region)
		}
		return sv
	case *types.Struct:
		out := &StructV{T: t}
		for i := 0; i < u.NumFields(); i++ {
			f := u.Field(i)
			out.F = append(out.F, e.loadHeap(st, obj, key+"."+f.Name(), f.Type()))
		}
		return out
	case *types.Array:
		// value copy of an array living in the heap: represent as a slice view (read-only use)
		return e.arrayRegionSlice(obj, key, u)
	}
	return e.C.Select(e.heapArr(rs, key, smt.BV64), obj)
}

func (e *Engine) arrayRegionSlice(obj *smt.Term, key string, a *types.Array) *SliceV {
	n := e.i64(a.Len())
	return &SliceV{Region: e.regionOf(key, obj), Off: e.i64(0), Len: n, Cap: n, Elem: a.Elem()}
}

// regionOf is the memory region of an array embedded in a heap object.
func (e *Engine) regionOf(key string, obj *smt.Term) *smt.Term {
	return e.C.App("region$"+key, smt.BV64, obj)
}

func (e *Engine) storeHeap(st *State, obj *smt.Term, key string, t types.Type, v Value) {
	if s := scalarSort(t); s != nil {
		tv := e.asTerm(st, v, t)
		st.Heap[key] = e.C.Store(e.heapArr(st, key, s), obj, tv)
		return
	}
	switch u := under(t).(type) {
	case *types.Slice:
		sv := e.asSlice(v, u.Elem())
		if sv.Conc != nil {
			e.fail("store of executor-level slice into heap field %s", key)
		}
		st.Heap[key+".#reg"] = e.C.Store(e.heapArr(st, key+".#reg", smt.BV64), obj, sv.Region)
		st.Heap[key+".#off"] = e.C.Store(e.heapArr(st, key+".#off", smt.BV64), obj, sv.Off)
		st.Heap[key+".#len"] = e.C.Store(e.heapArr(st, key+".#len", smt.BV64), obj, sv.Len)
		st.Heap[key+".#cap"] = e.C.Store(e.heapArr(st, key+".#cap", smt.BV64), obj, sv.Cap)
		return
	case *types.Struct:
		s := v.(*StructV)
		for i := 0; i < u.NumFields(); i++ {
			f := u.Field(i)
			e.storeHeap(st, obj, key+"."+f.Name(), f.Type(), s.F[i])
		}
		return
	case *types.Array:
		// an array embedded in a heap object is its own region (region$key(obj)); storing
		// an executor-level array value writes its elements there
		if _, ok := v.(*ArrV); ok {
			// (composite literals: the zero value; the content of the embedded array of the
			// new object is left unconstrained, which is weaker than "all zero" and sound)
			e.regionOfNoted(st, key, obj)
			return
		}
	}
	tv := e.asTerm(st, v, t)
	st.Heap[key] = e.C.Store(e.heapArr(st, key, smt.BV64), obj, tv)
}

func (e *Engine) loadElem(st *State, reg, idx *smt.Term, key string, t types.Type) Value {
	rs := e.rd(st)
	if s := scalarSort(t); s != nil {
		return e.C.Select(e.C.Select(e.memArr(rs, key, s), reg), idx)
	}
	switch u := under(t).(type) {
	case *types.Slice:
		sv := &SliceV{Elem: u.Elem()}
		g := func(sfx string) *smt.Term {
			return e.C.Select(e.C.Select(e.memArr(rs, key+sfx, smt.BV64), reg), idx)
		}
		sv.Region, sv.Off, sv.Len, sv.Cap = g(".#reg"), g(".#off"), g(".#len"), g(".#cap")
		st.Assume(e.validSlice(sv))
		return sv
	case *types.Struct:
		out := &StructV{T: t}
		for i := 0; i < u.NumFields(); i++ {
			f := u.Field(i)
			out.F = append(out.F, e.loadElem(st, reg, idx, key+"."+f.Name(), f.Type()))
		}
		return out
	}
	e.fail("load of element type %s", t)
	return nil
}

func (e *Engine) storeElem(st *State, reg, idx *smt.Term, key string, t types.Type, v Value) {
	put := func(k string, s *smt.Sort, tv *smt.Term) {
		m := e.memArr(st, k, s)
		st.Mem[k] = e.C.Store(m, reg, e.C.Store(e.C.Select(m, reg), idx, tv))
	}
	if s := scalarSort(t); s != nil {
		put(key, s, e.asTerm(st, v, t))
		return
	}
	switch u := under(t).(type) {
	case *types.Slice:
		sv := e.asSlice(v, u.Elem())
		put(key+".#reg", smt.BV64, sv.Region)
		put(key+".#off", smt.BV64, sv.Off)
		put(key+".#len", smt.BV64, sv.Len)
		put(key+".#cap", smt.BV64, sv.Cap)
		return
	case *types.Struct:
		s := v.(*StructV)
		for i := 0; i < u.NumFields(); i++ {
			f := u.Field(i)
			e.storeElem(st, reg, idx, key+"."+f.Name(), f.Type(), s.F[i])
		}
		return
	}
	e.fail("store of element type %s", t)
}

// ---------- value helpers ----------

func (e *Engine) zero(t types.Type) Value {
	if s := scalarSort(t); s != nil {
		switch s.K {
		case smt.KBool:
			return e.C.False()
		case smt.KBV:
			return e.C.BVC(s.W, 0)
		case smt.KUSort:
			return e.strLit("")
		}
	}
	switch u := under(t).(type) {
	case *types.Slice:
		return e.nilSlice(u.Elem())
	case *types.Struct:
		out := &StructV{T: t}
		for i := 0; i < u.NumFields(); i++ {
			out.F = append(out.F, e.zero(u.Field(i).Type()))
		}
		return out
	case *types.Array:
		if u.Len() > 4096 {
			e.fail("zero value of large array %s", t)
		}
		a := &ArrV{Elem: u.Elem()}
		for i := int64(0); i < u.Len(); i++ {
			a.Elems = append(a.Elems, e.zero(u.Elem()))
		}
		return a
	}
	return e.C.BVC(64, 0)
}

func (e *Engine) strLit(s string) *smt.Term {
	if t, ok := e.strLits[s]; ok {
		return t
	}
	t := e.C.Var(fmt.Sprintf("str$%d", len(e.strLitList)), smt.Str)
	e.strLits[s] = t
	e.strLitList = append(e.strLitList, s)
	return t
}

func (e *Engine) litOf(t *smt.Term) (string, bool) {
	if t.Op == smt.OVar && strings.HasPrefix(t.Name, "str$") {
		var n int
		fmt.Sscanf(t.Name[4:], "%d", &n)
		if n < len(e.strLitList) && e.strLits[e.strLitList[n]] == t {
			return e.strLitList[n], true
		}
	}
	return "", false
}

func (e *Engine) slen(s *smt.Term) *smt.Term {
	if l, ok := e.litOf(s); ok {
		return e.i64(int64(len(l)))
	}
	return e.C.App("slen", smt.BV64, s)
}

func (e *Engine) sbyte(s, i *smt.Term) *smt.Term {
	if l, ok := e.litOf(s); ok && i.IsConst() && int(i.Val) < len(l) {
		return e.C.BVC(8, uint64(l[i.Val]))
	}
	return e.C.App("sbyte", smt.BV8, s, i)
}

func (e *Engine) constVal(c *ssa.Const) Value {
	t := c.Type()
	if c.Value == nil {
		return e.zero(t)
	}
	switch c.Value.Kind() {
	case constant.Bool:
		return e.C.BoolC(constant.BoolVal(c.Value))
	case constant.String:
		return e.strLit(constant.StringVal(c.Value))
	case constant.Int:
		s := scalarSort(t)
		if s == nil || s.K != smt.KBV {
			e.fail("int constant of type %s", t)
		}
		if v, ok := constant.Int64Val(c.Value); ok {
			return e.C.BVC(s.W, uint64(v))
		}
		if v, ok := constant.Uint64Val(c.Value); ok {
			return e.C.BVC(s.W, v)
		}
		e.fail("constant %s out of range", c.Value)
	case constant.Float:
		// durations etc. computed as floats are not supported; opaque
		f, _ := constant.Float64Val(c.Value)
		if s := scalarSort(t); s != nil && s.K == smt.KBV {
			return e.C.BVC(s.W, uint64(int64(f)))
		}
		return e.C.Var(fmt.Sprintf("float$%v", f), smt.BV64)
	}
	e.fail("unsupported constant %v", c)
	return nil
}

func (e *Engine) asSlice(v Value, elem types.Type) *SliceV {
	switch x := v.(type) {
	case *SliceV:
		return x
	case *smt.Term:
		if x.IsConst() && x.Val == 0 {
			return e.nilSlice(elem)
		}
	}
	e.fail("expected slice, got %T", v)
	return nil
}

// asTerm converts an executor-level value into a single SMT term of the scalar sort of t.
func (e *Engine) asTerm(st *State, v Value, t types.Type) *smt.Term {
	switch x := v.(type) {
	case *smt.Term:
		return x
	case *IfaceV:
		return e.materialize(st, x)
	case *PtrV:
		return e.ptrTerm(st, x)
	case *ClosureV:
		// function values are opaque references
		fn := x.Fn.(*ssa.Function)
		return e.C.Var("fn$"+fn.String(), smt.BV64)
	case nil:
		return e.C.BVC(64, 0)
	}
	e.fail("cannot represent %T as a term (type %v)", v, t)
	return nil
}

// ptrTerm encodes an executor-level pointer as a reference term.
func (e *Engine) ptrTerm(st *State, p *PtrV) *smt.Term {
	switch p.Kind {
	case PField:
		t := e.C.App("fieldptr$"+p.Key, smt.BV64, p.Obj)
		// injectivity (instance) and non-nil
		st.Assume(e.C.Eq(e.C.App("fieldptr_inv$"+p.Key, smt.BV64, t), p.Obj))
		st.Assume(e.C.Not(e.C.Eq(t, e.i64(0))))
		st.Assume(e.C.Eq(e.C.Select(e.allocMap(st), t), e.C.Select(e.allocMap(st), p.Obj)))
		if st.Pre != nil {
			st.Assume(e.C.Eq(e.C.Select(e.allocMap(st.Pre), t), e.C.Select(e.allocMap(st.Pre), p.Obj)))
		}
		return t
	case PGlobal:
		t := e.C.Var("gaddr$"+p.Key, smt.BV64)
		st.Assume(e.C.Not(e.C.Eq(t, e.i64(0))))
		return t
	case PCell:
		if len(p.Path) == 0 {
			t := e.C.Var(fmt.Sprintf("celladdr$%d", p.Cell.ID), smt.BV64)
			st.Assume(e.C.Not(e.C.Eq(t, e.i64(0))))
			return t
		}
	}
	e.fail("pointer of kind %d escapes into symbolic state", p.Kind)
	return nil
}

var ifaceCount int

func (e *Engine) typeTag(t types.Type) *smt.Term {
	return e.kindConst("type$" + typeName(t))
}

func (e *Engine) dynType(x *smt.Term) *smt.Term { return e.C.App("dyntype", smt.BV64, x) }

// materialize turns an interface wrapper into a reference term with projection facts.
func (e *Engine) materialize(st *State, iv *IfaceV) *smt.Term {
	c := e.C
	switch inner := iv.V.(type) {
	case *smt.Term:
		if _, ok := under(iv.T).(*types.Pointer); ok {
			t := c.App("mkif$"+typeName(iv.T), smt.BV64, inner)
			st.Assume(c.Eq(c.App("ifval$"+typeName(iv.T), smt.BV64, t), inner))
			st.Assume(c.Eq(e.dynType(t), e.typeTag(iv.T)))
			st.Assume(c.Not(c.Eq(t, e.i64(0))))
			return t
		}
		if _, ok := under(iv.T).(*types.Interface); ok {
			return inner
		}
		t := c.App("mkif$"+typeName(iv.T), smt.BV64, inner)
		st.Assume(c.Eq(c.App("ifval$"+typeName(iv.T), inner.Sort, t), inner))
		st.Assume(c.Eq(e.dynType(t), e.typeTag(iv.T)))
		st.Assume(c.Not(c.Eq(t, e.i64(0))))
		return t
	case *StructV:
		t := c.Fresh("ifobj$"+typeName(iv.T), smt.BV64)
		st.Assume(c.Eq(e.dynType(t), e.typeTag(iv.T)))
		st.Assume(c.Not(c.Eq(t, e.i64(0))))
		e.projFacts(st, t, "ifval$"+typeName(iv.T), iv.T, inner)
		if typeName(iv.T) == "websocket.CloseError" {
			e.errFacts(st, t, nil, inner)
		}
		return t
	case *IfaceV:
		return e.materialize(st, inner)
	case *ClosureV, *PtrV:
		t := c.Fresh("ifobj$"+typeName(iv.T), smt.BV64)
		st.Assume(c.Eq(e.dynType(t), e.typeTag(iv.T)))
		st.Assume(c.Not(c.Eq(t, e.i64(0))))
		return t
	case *SliceV:
		t := c.Fresh("ifobj$slice", smt.BV64)
		st.Assume(c.Not(c.Eq(t, e.i64(0))))
		return t
	}
	e.fail("cannot materialize interface of %T", iv.V)
	return nil
}

func (e *Engine) projFacts(st *State, t *smt.Term, pfx string, T types.Type, v Value) {
	switch x := v.(type) {
	case *smt.Term:
		st.Assume(e.C.Eq(e.C.App(pfx, x.Sort, t), x))
	case *StructV:
		u := under(T).(*types.Struct)
		for i := 0; i < u.NumFields(); i++ {
			e.projFacts(st, t, pfx+"."+u.Field(i).Name(), u.Field(i).Type(), x.F[i])
		}
	}
}

func (e *Engine) projLoad(t *smt.Term, pfx string, T types.Type) Value {
	if s := scalarSort(T); s != nil {
		return e.C.App(pfx, s, t)
	}
	if u, ok := under(T).(*types.Struct); ok {
		out := &StructV{T: T}
		for i := 0; i < u.NumFields(); i++ {
			out.F = append(out.F, e.projLoad(t, pfx+"."+u.Field(i).Name(), u.Field(i).Type()))
		}
		return out
	}
	e.fail("projection of %s", T)
	return nil
}

// ---------- pointers ----------

func navigate(v Value, path []int) Value {
	for _, i := range path {
		switch x := v.(type) {
		case *StructV:
			v = x.F[i]
		case *ArrV:
			v = x.Elems[i]
		default:
			panic(execError{fmt.Sprintf("navigate into %T", v)})
		}
	}
	return v
}

func update(v Value, path []int, nv Value) Value {
	if len(path) == 0 {
		return nv
	}
	switch x := v.(type) {
	case *StructV:
		c := &StructV{T: x.T, F: append([]Value(nil), x.F...)}
		c.F[path[0]] = update(x.F[path[0]], path[1:], nv)
		return c
	case *ArrV:
		c := &ArrV{Elem: x.Elem, Elems: append([]Value(nil), x.Elems...)}
		c.Elems[path[0]] = update(x.Elems[path[0]], path[1:], nv)
		return c
	}
	panic(execError{fmt.Sprintf("update into %T", v)})
}

func (e *Engine) load(st *State, p Value, t types.Type, pos string) Value {
	switch x := p.(type) {
	case *PtrV:
		switch x.Kind {
		case PCell:
			v, ok := st.Cells[x.Cell]
			if !ok {
				v = e.zero(x.Cell.T)
			}
			return navigate(v, x.Path)
		case PField:
			return e.loadHeap(st, x.Obj, x.Key, t)
		case PElem:
			return e.loadElem(st, x.Reg, x.Idx, x.Key, t)
		case PGlobal:
			return e.loadGlobal(st, x.Key, t)
		}
	case *smt.Term:
		// pointer to a heap object of struct/basic type: *p loads the whole object
		pt := t
		return e.loadHeap(st, x, typeName(pt), pt)
	}
	e.fail("load through %T at %s", p, pos)
	return nil
}

func (e *Engine) store(st *State, p Value, t types.Type, v Value, pos string) {
	switch x := p.(type) {
	case *PtrV:
		switch x.Kind {
		case PCell:
			cur, ok := st.Cells[x.Cell]
			if !ok {
				cur = e.zero(x.Cell.T)
			}
			st.Cells[x.Cell] = update(cur, x.Path, v)
			return
		case PField:
			e.storeHeap(st, x.Obj, x.Key, t, v)
			return
		case PElem:
			e.storeElem(st, x.Reg, x.Idx, x.Key, t, v)
			return
		case PGlobal:
			e.storeHeap(st, e.i64(0), "g:"+x.Key, t, v)
			return
		}
	case *smt.Term:
		e.storeHeap(st, x, typeName(t), t, v)
		return
	}
	e.fail("store through %T at %s", p, pos)
}

func (e *Engine) loadGlobal(st *State, key string, t types.Type) Value {
	if e.foreignGlobals[key] {
		if s := scalarSort(t); s != nil {
			return e.C.Var("g$"+key, s)
		}
	}
	return e.loadHeap(st, e.i64(0), "g:"+key, t)
}

// ---------- integer operations ----------

func (e *Engine) binop(st *State, op token.Token, x, y Value, xt, yt types.Type, fr *Frame, pos string) Value {
	c := e.C
	// struct / slice / iface comparisons
	switch op {
	case token.EQL, token.NEQ:
		r := e.equal(st, x, y, xt)
		if op == token.NEQ {
			r = c.Not(r)
		}
		return r
	}
	a, ok1 := x.(*smt.Term)
	b, ok2 := y.(*smt.Term)
	if !ok1 || !ok2 {
		e.fail("binop %s on %T,%T at %s", op, x, y, pos)
	}
	if a.Sort == smt.Bool {
		switch op {
		case token.LAND, token.AND:
			return c.And(a, b)
		case token.LOR, token.OR:
			return c.Or(a, b)
		case token.XOR:
			return c.Not(c.Eq(a, b))
		}
		e.fail("bool binop %s", op)
	}
	if a.Sort == smt.Str {
		if op == token.ADD {
			var cat func(a, b *smt.Term, depth int) *smt.Term
			cat = func(a, b *smt.Term, depth int) *smt.Term {
				la, oka := e.litOf(a)
				lb, okb := e.litOf(b)
				if oka && okb {
					return e.strLit(la + lb)
				}
				// concatenation distributes over the choice between literals (merged branches)
				if a.Op == smt.OIte && depth < 6 {
					return c.Ite(a.Args[0], cat(a.Args[1], b, depth+1), cat(a.Args[2], b, depth+1))
				}
				if b.Op == smt.OIte && depth < 6 {
					return c.Ite(b.Args[0], cat(a, b.Args[1], depth+1), cat(a, b.Args[2], depth+1))
				}
				r := c.App("sconcat", smt.Str, a, b)
				st.Assume(c.Eq(e.slen(r), c.Add(e.slen(a), e.slen(b))))
				return r
			}
			return cat(a, b, 0)
		}
		e.fail("string binop %s at %s", op, pos)
	}
	signed := isSigned(xt)
	switch op {
	case token.ADD:
		return c.Add(a, b)
	case token.SUB:
		return c.Sub(a, b)
	case token.MUL:
		return c.Mul(a, b)
	case token.QUO, token.REM:
		if !fr.Pure {
			e.oblige(st, fr, "safety:div-by-zero", "", c.Not(c.Eq(b, c.BVC(b.Sort.W, 0))), pos)
		}
		if signed {
			if op == token.QUO {
				return c.SDiv(a, b)
			}
			return c.SRem(a, b)
		}
		if op == token.QUO {
			return c.UDiv(a, b)
		}
		return c.URem(a, b)
	case token.AND:
		return c.BvAnd(a, b)
	case token.OR:
		return c.BvOr(a, b)
	case token.XOR:
		return c.BvXor(a, b)
	case token.AND_NOT:
		return c.BvAnd(a, c.BvNot(b))
	case token.SHL, token.SHR:
		w := a.Sort.W
		cw := b.Sort.W
		ysigned := isSigned(yt)
		if ysigned && !fr.Pure {
			e.oblige(st, fr, "safety:negative-shift", "", c.Sle(c.BVC(cw, 0), b), pos)
		}
		W := w
		if cw > W {
			W = cw
		}
		var xa *smt.Term
		if signed && op == token.SHR {
			xa = c.Sext(W, a)
		} else {
			xa = c.Zext(W, a)
		}
		cb := c.Zext(W, b)
		var r *smt.Term
		switch {
		case op == token.SHL:
			r = c.Shl(xa, cb)
		case signed:
			r = c.Ashr(xa, cb)
		default:
			r = c.Lshr(xa, cb)
		}
		return c.Extract(w-1, 0, r)
	case token.LSS:
		if signed {
			return c.Slt(a, b)
		}
		return c.Ult(a, b)
	case token.LEQ:
		if signed {
			return c.Sle(a, b)
		}
		return c.Ule(a, b)
	case token.GTR:
		if signed {
			return c.Slt(b, a)
		}
		return c.Ult(b, a)
	case token.GEQ:
		if signed {
			return c.Sle(b, a)
		}
		return c.Ule(b, a)
	}
	e.fail("unsupported binop %s at %s", op, pos)
	return nil
}

func (e *Engine) equal(st *State, x, y Value, t types.Type) *smt.Term {
	c := e.C
	switch a := x.(type) {
	case *StructV:
		b, ok := y.(*StructV)
		if !ok {
			e.fail("struct compared with %T", y)
		}
		u := under(a.T).(*types.Struct)
		var cs []*smt.Term
		for i := range a.F {
			cs = append(cs, e.equal(st, a.F[i], b.F[i], u.Field(i).Type()))
		}
		return c.And(cs...)
	case *SliceV:
		// only comparison with nil is legal
		if b, ok := y.(*SliceV); ok && b.Region.IsConst() && b.Cap.IsConst() {
			return e.sliceIsNil(a)
		}
		if b, ok := y.(*smt.Term); ok && b.IsConst() && b.Val == 0 {
			return e.sliceIsNil(a)
		}
		if b, ok := y.(*SliceV); ok && a.Region.IsConst() && a.Cap.IsConst() {
			return e.sliceIsNil(b)
		}
		e.fail("slice comparison")
	case *IfaceV:
		if b, ok := y.(*smt.Term); ok && b.IsConst() && b.Val == 0 {
			return c.False()
		}
		return c.Eq(e.materialize(st, a), e.asTerm(st, y, t))
	case *PtrV, *ClosureV:
		if b, ok := y.(*smt.Term); ok && b.IsConst() && b.Val == 0 {
			return c.False()
		}
		if y == nil {
			return c.False()
		}
		return c.Eq(e.asTerm(st, x, t), e.asTerm(st, y, t))
	case *smt.Term:
		switch b := y.(type) {
		case *smt.Term:
			return c.Eq(a, b)
		case *SliceV:
			return e.equal(st, y, x, t)
		case *IfaceV, *PtrV, *ClosureV:
			return e.equal(st, y, x, t)
		}
	case nil:
		if y == nil {
			return c.True()
		}
		return e.equal(st, y, x, t)
	}
	e.fail("unsupported comparison %T == %T", x, y)
	return nil
}

// a slice is nil iff its region is the null region
func (e *Engine) sliceIsNil(s *SliceV) *smt.Term {
	return e.C.Eq(s.Region, e.i64(0))
}

func (e *Engine) convert(st *State, v Value, from, to types.Type, fr *Frame, pos string) Value {
	c := e.C
	fs, ts := scalarSort(from), scalarSort(to)
	if tv, ok := v.(*smt.Term); ok && fs != nil && ts != nil && fs.K == smt.KBV && ts.K == smt.KBV {
		_, fIsBasic := under(from).(*types.Basic)
		_, tIsBasic := under(to).(*types.Basic)
		if fIsBasic && tIsBasic {
			if ts.W == fs.W {
				return tv
			}
			if ts.W < fs.W {
				return c.Extract(ts.W-1, 0, tv)
			}
			if isSigned(from) {
				return c.Sext(ts.W, tv)
			}
			return c.Zext(ts.W, tv)
		}
		return tv // pointer/unsafe conversions: same reference
	}
	// string <-> []byte
	if ts == smt.Str {
		switch x := v.(type) {
		case *SliceV:
			if !isByteSliceElem(x.Elem) {
				e.fail("string(non-byte slice)")
			}
			return e.stringOfBytes(st, x)
		case *smt.Term:
			if x.Sort == smt.Str {
				return x
			}
			// string(rune/int)
			r := c.App("string_of_rune", smt.Str, c.Zext(64, c.Extract(min(x.Sort.W, 64)-1, 0, x)))
			return r
		}
	}
	if sl, ok := under(to).(*types.Slice); ok {
		if tv, ok := v.(*smt.Term); ok && tv.Sort == smt.Str {
			if !isByteSliceElem(sl.Elem()) {
				e.fail("[]rune(string) unsupported")
			}
			return e.bytesOfString(st, tv)
		}
		if sv, ok := v.(*SliceV); ok {
			return sv
		}
	}
	if _, ok := v.(*SliceV); ok {
		return v
	}
	if _, ok := v.(*StructV); ok {
		return v
	}
	if _, ok := v.(*ClosureV); ok {
		return v
	}
	if tv, ok := v.(*smt.Term); ok && fs == ts {
		return tv
	}
	// float conversions: opaque
	if tv, ok := v.(*smt.Term); ok && ts != nil {
		return c.App(fmt.Sprintf("conv$%s$%s", typeName(from), typeName(to)), ts, tv)
	}
	e.fail("unsupported conversion %s -> %s at %s", from, to, pos)
	return nil
}

func min(a, b int) int {
	if a < b {
		return a
	}
	return b
}

// stringOfBytes: string(b) is a Str whose length and bytes are those of b now.
func (e *Engine) stringOfBytes(st *State, b *SliceV) *smt.Term {
	c := e.C
	rs := e.rd(st)
	arr := c.Select(e.memArr(rs, "u8", smt.BV8), b.Region)
	s := c.App("str_of_bytes", smt.Str, arr, b.Off, b.Len)
	st.Assume(c.Eq(e.slen(s), b.Len))
	k := c.Bound("k", smt.BV64)
	st.Assume(c.Forall([]*smt.Term{k}, c.Implies(c.And(c.Sle(e.i64(0), k), c.Slt(k, b.Len)),
		c.Eq(c.App("sbyte", smt.BV8, s, k), c.Select(arr, c.Add(b.Off, k))))))
	return s
}

func (e *Engine) bytesOfString(st *State, s *smt.Term) *SliceV {
	c := e.C
	reg := e.freshRegion(st, "strbytes")
	n := e.slen(s)
	sv := &SliceV{Region: reg, Off: e.i64(0), Len: n, Cap: n, Elem: types.Typ[types.Uint8]}
	st.Assume(c.Sle(e.i64(0), n))
	st.Assume(c.Sle(n, e.i64(1<<56)))
	m := e.memArr(st, "u8", smt.BV8)
	if l, ok := e.litOf(s); ok && len(l) <= 64 {
		arr := c.Select(m, reg)
		for i := 0; i < len(l); i++ {
			arr = c.Store(arr, e.i64(int64(i)), c.BVC(8, uint64(l[i])))
		}
		st.Mem["u8"] = c.Store(m, reg, arr)
		return sv
	}
	arr := c.Fresh("strbytes", smt.Arr(smt.BV64, smt.BV8))
	st.Mem["u8"] = c.Store(m, reg, arr)
	k := c.Bound("k", smt.BV64)
	st.Assume(c.Forall([]*smt.Term{k}, c.Implies(c.And(c.Sle(e.i64(0), k), c.Slt(k, n)),
		c.Eq(c.Select(arr, k), c.App("sbyte", smt.BV8, s, k)))))
	return sv
}

// freshRegion allocates a region id distinct from every region allocated before.
func (e *Engine) freshRegion(st *State, why string) *smt.Term {
	return e.freshRef(st, "region!"+why)
}

func (e *Engine) freshObj(st *State, why string) *smt.Term {
	return e.freshRef(st, "obj!"+why)
}

func (e *Engine) allocMap(st *State) *smt.Term {
	return e.heapArr(st, "$alloc", smt.Bool)
}

func (e *Engine) freshRef(st *State, name string) *smt.Term {
	c := e.C
	r := c.Fresh(name, smt.BV64)
	a := e.allocMap(st)
	st.Assume(c.Not(c.Select(a, r)))
	st.Assume(c.Not(c.Eq(r, e.i64(0))))
	for _, f := range st.Fresh {
		st.Assume(c.Not(c.Eq(r, f)))
	}
	st.Heap["$alloc"] = c.Store(a, r, c.True())
	st.Fresh = append(st.Fresh, r)
	return r
}

// preexistingBeforeFresh: a reference read from the heap is distinct from objects this
// path allocated itself unless it was stored there by this path (then it is
// syntactically one of them).
func (e *Engine) preexistingBeforeFresh(st *State, r *smt.Term) {
	if r.IsConst() || st.OldDepth > 0 {
		return
	}
	for _, f := range st.Fresh {
		if f == r {
			return
		}
	}
	if r.Op == smt.OSelect && r.Args[0].Op == smt.OStore && entryReachable(r.Args[1]) {
		// the field array was written in this function (at other objects, as far as the
		// solver can tell): what the *initial* array holds at an entry-reachable object is
		// pre-existing all the same
		base := r.Args[0]
		for base.Op == smt.OStore {
			base = base.Args[0]
		}
		if base.Op == smt.OVar {
			r0 := e.C.Select(base, r.Args[1])
			for _, f := range st.Fresh {
				st.Assume(e.C.Not(e.C.Eq(r0, f)))
			}
			st.Assume(e.C.Or(e.C.Eq(r0, e.i64(0)), e.C.Select(e.allocMap(st), r0)))
		}
		return
	}
	if r.Op == smt.OSelect && r.Args[0].Op == smt.OVar && entryReachable(r.Args[1]) {
		// read from an initial (pre-state) heap array at an object that existed at function
		// entry: certainly pre-existing. (A field of an object that a callee returned as fresh
		// is read from the same unmodified array but may well point to an object allocated
		// here before the call.)
		for _, f := range st.Fresh {
			st.Assume(e.C.Not(e.C.Eq(r, f)))
		}
	}
}

// entryReachable: the term denotes an object reachable from the function's inputs through
// initial heap arrays only (so it existed at function entry).
func entryReachable(t *smt.Term) bool {
	for depth := 0; depth < 8; depth++ {
		switch {
		case t.Op == smt.OVar:
			return strings.HasPrefix(t.Name, "in$") || strings.HasPrefix(t.Name, "g$") || strings.HasPrefix(t.Name, "gaddr$")
		case t.Op == smt.OSelect && t.Args[0].Op == smt.OVar:
			t = t.Args[1]
		case t.Op == smt.OApp && len(t.Args) == 1:
			// interface wrappers / ghost accessors of an entry-reachable object
			t = t.Args[0]
		default:
			return false
		}
	}
	return false
}

// preexisting states that a reference/region term read from symbolic state is
// either nil or was allocated before now.
func (e *Engine) preexisting(st *State, r *smt.Term) {
	if r.IsConst() || st.OldDepth > 0 {
		return
	}
	for _, f := range st.Fresh {
		if f == r {
			return
		}
	}
	st.Assume(e.C.Or(e.C.Eq(r, e.i64(0)), e.C.Select(e.allocMap(st), r)))
}
