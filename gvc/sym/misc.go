package sym

import (
	"fmt"
	"go/token"
	"go/types"
	"strings"

	"golang.org/x/tools/go/ssa"

	"gvc/smt"
)

// ---------- builtins ----------

func (e *Engine) builtin(st *State, fr *Frame, b *ssa.Builtin, cc *ssa.CallCommon, args []Value, pos token.Pos) Value {
	c := e.C
	checks := st.PureDepth == 0 && !fr.Pure
	switch b.Name() {
	case "len":
		switch x := args[0].(type) {
		case *SliceV:
			return x.Len
		case *smt.Term:
			if x.Sort == smt.Str {
				return e.slen(x)
			}
			if _, ok := under(cc.Args[0].Type()).(*types.Map); ok {
				return c.Select(e.heapArr(e.rd(st), "maplen", smt.BV64), x)
			}
			if x.IsConst() && x.Val == 0 {
				return e.i64(0)
			}
		case *ArrV:
			return e.i64(int64(len(x.Elems)))
		case *PtrV:
			if at, ok := under(x.T).(*types.Array); ok {
				return e.i64(at.Len())
			}
		}
	case "cap":
		switch x := args[0].(type) {
		case *SliceV:
			return x.Cap
		case *smt.Term:
			if x.IsConst() {
				return e.i64(0)
			}
		}
	case "copy":
		dst := args[0].(*SliceV)
		var src *SliceV
		switch s := args[1].(type) {
		case *SliceV:
			src = s
		case *smt.Term:
			if s.Sort == smt.Str {
				src = e.bytesOfString(st, s)
			}
		}
		if src == nil {
			e.fail("copy from %T", args[1])
		}
		n := c.Ite(c.Slt(dst.Len, src.Len), dst.Len, src.Len)
		e.copyElems(st, dst, src, n)
		return n
	case "append":
		return e.appendOp(st, fr, cc, args, pos)
	case "delete":
		m := args[0].(*smt.Term)
		kt := under(cc.Args[0].Type()).(*types.Map)
		key := e.asTerm(st, args[1], kt.Key())
		if checks {
			e.recordCall(st, "map.delete", []Value{m, args[1]}, nil)
		}
		hk := "map:has:" + typeName(cc.Args[0].Type())
		ks := key.Sort
		a := e.heapArr(st, hk, smt.Arr(ks, smt.Bool))
		st.Heap[hk] = c.Store(a, m, c.Store(c.Select(a, m), key, c.False()))
		return nil
	case "close":
		ch := e.asTerm(st, args[0], nil)
		if checks {
			e.oblige(st, fr, "safety:close-nil-chan", "", c.Not(c.Eq(ch, e.i64(0))), e.pos(pos))
			// closing an already closed channel: every close() in the library happens either
			// in the goroutine that owns the channel (deferred, once) or under closeMu after an
			// isClosed() check; mutual exclusion between goroutines is outside the sequential
			// model, so this is not generated as an obligation (listed under "not decided").
		}
		st.Heap["chan.closed"] = c.Store(e.heapArr(st, "chan.closed", smt.Bool), ch, c.True())
		st.Touched[ch] = st.Epoch
		return nil
	case "panic":
		if checks {
			e.oblige(st, fr, "safety:explicit-panic", "", c.False(), e.pos(pos))
		}
		return nil
	case "print", "println":
		return nil
	case "min", "max":
		a, bb := args[0].(*smt.Term), args[1].(*smt.Term)
		lt := c.Slt(a, bb)
		if !isSigned(cc.Args[0].Type()) {
			lt = c.Ult(a, bb)
		}
		if b.Name() == "min" {
			return c.Ite(lt, a, bb)
		}
		return c.Ite(lt, bb, a)
	case "ssa:wrapnilchk":
		return args[0]
	case "ssa:deferstack":
		return e.i64(0)
	}
	e.fail("unsupported builtin %s at %s", b.Name(), e.pos(pos))
	return nil
}

// copyElems: dst[k] = src[k] for k in [0,n), with memmove semantics (reads the old contents).
func (e *Engine) copyElems(st *State, dst, src *SliceV, n *smt.Term) {
	c := e.C
	if src.Conc != nil || dst.Conc != nil {
		e.fail("copy with executor-level slice")
	}
	for _, l := range e.leafKeys(elemKey(dst.Elem), dst.Elem) {
		m := e.memArr(st, l.Path, l.Sort)
		srcArr := c.Select(m, src.Region)
		dstArr := c.Select(m, dst.Region)
		if n.IsConst() && n.Val <= 64 {
			na := dstArr
			for i := uint64(0); i < n.Val; i++ {
				k := e.i64(int64(i))
				na = c.Store(na, c.Add(dst.Off, k), c.Select(srcArr, c.Add(src.Off, k)))
			}
			st.Mem[l.Path] = c.Store(m, dst.Region, na)
			continue
		}
		na := c.Fresh("copied", dstArr.Sort)
		k := c.Bound("k", smt.BV64)
		inr := c.And(c.Sle(dst.Off, k), c.Slt(k, c.Add(dst.Off, n)))
		st.Assume(c.Forall([]*smt.Term{k}, c.Eq(c.Select(na, k),
			c.Ite(inr, c.Select(srcArr, c.Add(src.Off, c.Sub(k, dst.Off))), c.Select(dstArr, k)))))
		st.Mem[l.Path] = c.Store(m, dst.Region, na)
	}
}

func (e *Engine) appendOp(st *State, fr *Frame, cc *ssa.CallCommon, args []Value, pos token.Pos) Value {
	c := e.C
	elemT := under(cc.Args[0].Type()).(*types.Slice).Elem()
	base := e.asSlice(args[0], elemT)
	var add *SliceV
	switch s := args[1].(type) {
	case *SliceV:
		add = s
	case *smt.Term:
		if s.Sort == smt.Str {
			add = e.bytesOfString(st, s)
		} else if s.IsConst() && s.Val == 0 {
			add = e.nilSlice(elemT)
		}
	}
	if add == nil {
		e.fail("append of %T", args[1])
	}
	// executor-level packs (variadic interface args)
	if base.Conc != nil || add.Conc != nil || (scalarSort(elemT) == smt.BV64 && isIfaceType(elemT)) {
		var elems []Value
		get := func(s *SliceV) {
			if s.Conc != nil {
				arr := st.Cells[s.Conc].(*ArrV)
				elems = append(elems, arr.Elems[s.ConcLo:s.ConcHi]...)
			} else if !(s.Len.IsConst() && s.Len.Val == 0) {
				e.fail("append mixing symbolic and executor-level slices")
			}
		}
		get(base)
		get(add)
		e.nextCell++
		cell := &Cell{ID: e.nextCell, Name: "append-pack", T: types.NewArray(elemT, int64(len(elems)))}
		st.Cells[cell] = &ArrV{Elem: elemT, Elems: elems}
		n := e.i64(int64(len(elems)))
		return &SliceV{Conc: cell, ConcLo: 0, ConcHi: len(elems), Elem: elemT, Len: n, Cap: n, Region: e.i64(0), Off: e.i64(0)}
	}
	newLen := c.Add(base.Len, add.Len)
	fits := c.Sle(newLen, base.Cap)
	// in place if it fits, otherwise a fresh region holding the old contents
	if e.inPC(st, fits) || fits.IsTrue() {
		dst := &SliceV{Region: base.Region, Off: c.Add(base.Off, base.Len), Len: add.Len, Cap: add.Len, Elem: elemT}
		e.copyElems(st, dst, add, add.Len)
		return &SliceV{Region: base.Region, Off: base.Off, Len: newLen, Cap: base.Cap, Elem: elemT}
	}
	// general case: result header and memory are ite-merged
	n0 := len(st.PC)
	stIn := st.Clone()
	dst := &SliceV{Region: base.Region, Off: c.Add(base.Off, base.Len), Len: add.Len, Cap: add.Len, Elem: elemT}
	e.copyElems(stIn, dst, add, add.Len)
	extra := append([]*smt.Term(nil), stIn.PC[n0:]...)
	// fresh path
	ncap := c.Fresh("appendcap", smt.BV64)
	st.Assume(c.Sle(newLen, ncap))
	st.Assume(c.Sle(ncap, e.i64(1<<56)))
	st.Assume(c.Sle(newLen, e.i64(1<<56)))
	fresh := e.freshRegion(st, "append")
	d0 := &SliceV{Region: fresh, Off: e.i64(0), Len: base.Len, Cap: base.Len, Elem: elemT}
	e.copyElems(st, d0, base, base.Len)
	d1 := &SliceV{Region: fresh, Off: base.Len, Len: add.Len, Cap: add.Len, Elem: elemT}
	e.copyElems(st, d1, add, add.Len)
	for _, l := range e.leafKeys(elemKey(elemT), elemT) {
		st.Mem[l.Path] = c.Ite(fits, stIn.Mem[l.Path], st.Mem[l.Path])
	}
	for _, x := range extra {
		st.Assume(x)
	}
	return &SliceV{Region: c.Ite(fits, base.Region, fresh), Off: c.Ite(fits, base.Off, e.i64(0)), Len: newLen, Cap: c.Ite(fits, base.Cap, ncap), Elem: elemT}
}


func isIfaceType(t types.Type) bool {
	_, ok := under(t).(*types.Interface)
	return ok
}


// ---------- maps ----------

func (e *Engine) mapKeys(mt types.Type) (string, string, *types.Map) {
	m := under(mt).(*types.Map)
	return "map:has:" + typeName(mt), "map:val:" + typeName(mt), m
}

func (e *Engine) lookup(st *State, fr *Frame, x *ssa.Lookup) Value {
	c := e.C
	base := e.val(fr, x.X)
	if bt, ok := base.(*smt.Term); ok && bt.Sort == smt.Str {
		idx := e.toInt64(e.val(fr, x.Index).(*smt.Term), x.Index.Type())
		return e.sbyte(bt, idx)
	}
	m := base.(*smt.Term)
	hk, vk, mt := e.mapKeys(x.X.Type())
	key := e.asTerm(st, e.val(fr, x.Index), mt.Key())
	rs := e.rd(st)
	has := c.Select(c.Select(e.heapArr(rs, hk, smt.Arr(key.Sort, smt.Bool)), m), key)
	var val Value
	if s := scalarSort(mt.Elem()); s != nil {
		v := c.Select(c.Select(e.heapArr(rs, vk, smt.Arr(key.Sort, s)), m), key)
		val = c.Ite(has, v, e.zero(mt.Elem()).(*smt.Term))
	} else if sl, ok := under(mt.Elem()).(*types.Slice); ok {
		g := func(sfx string) *smt.Term {
			return c.Select(c.Select(e.heapArr(rs, vk+sfx, smt.Arr(key.Sort, smt.BV64)), m), key)
		}
		z := e.i64(0)
		sv := &SliceV{Region: c.Ite(has, g(".#reg"), z), Off: c.Ite(has, g(".#off"), z), Len: c.Ite(has, g(".#len"), z), Cap: c.Ite(has, g(".#cap"), z), Elem: sl.Elem()}
		st.Assume(e.validSlice(sv))
		val = sv
	} else {
		e.fail("map with value type %s", mt.Elem())
	}
	if st.PureDepth == 0 && !fr.Pure {
		e.recordCall(st, "map.lookup", []Value{m, e.val(fr, x.Index)}, []Value{val, has})
	}
	if x.CommaOk {
		return &TupleV{V: []Value{val, has}}
	}
	return val
}

func (e *Engine) mapUpdate(st *State, fr *Frame, x *ssa.MapUpdate) {
	c := e.C
	m := e.val(fr, x.Map).(*smt.Term)
	hk, vk, mt := e.mapKeys(x.Map.Type())
	key := e.asTerm(st, e.val(fr, x.Key), mt.Key())
	if st.PureDepth == 0 && !fr.Pure {
		e.oblige(st, fr, "safety:nil-map-write", "", c.Not(c.Eq(m, e.i64(0))), e.pos(x.Pos()))
	}
	if st.PureDepth == 0 && !fr.Pure {
		e.recordCall(st, "map.update", []Value{m, e.val(fr, x.Key), e.val(fr, x.Value)}, nil)
	}
	ha := e.heapArr(st, hk, smt.Arr(key.Sort, smt.Bool))
	st.Heap[hk] = c.Store(ha, m, c.Store(c.Select(ha, m), key, c.True()))
	if s := scalarSort(mt.Elem()); s != nil {
		va := e.heapArr(st, vk, smt.Arr(key.Sort, s))
		st.Heap[vk] = c.Store(va, m, c.Store(c.Select(va, m), key, e.asTerm(st, e.val(fr, x.Value), mt.Elem())))
		return
	}
	if sl, ok := under(mt.Elem()).(*types.Slice); ok {
		sv := e.asSlice(e.val(fr, x.Value), sl.Elem())
		put := func(sfx string, t *smt.Term) {
			va := e.heapArr(st, vk+sfx, smt.Arr(key.Sort, smt.BV64))
			st.Heap[vk+sfx] = c.Store(va, m, c.Store(c.Select(va, m), key, t))
		}
		put(".#reg", sv.Region)
		put(".#off", sv.Off)
		put(".#len", sv.Len)
		put(".#cap", sv.Cap)
		return
	}
	e.fail("map update with value type %s", mt.Elem())
}

// ---------- loops: footprint, havoc, clause evaluation ----------

type footprint struct {
	allocs map[*ssa.Alloc]bool
	heap   map[string]types.Type // key prefix -> type stored
	mem    map[string]types.Type // element key -> elem type
	all    bool
}

func newFootprint() *footprint {
	return &footprint{allocs: map[*ssa.Alloc]bool{}, heap: map[string]types.Type{}, mem: map[string]types.Type{}}
}

// addrRoot walks FieldAddr/IndexAddr chains to the root pointer and computes the heap key.
func addrRoot(v ssa.Value) (root ssa.Value, key string, isElem bool, elemT types.Type) {
	switch x := v.(type) {
	case *ssa.FieldAddr:
		r, k, el, et := addrRoot(x.X)
		sT, sName := structOf(x.X.Type())
		f := sT.Field(x.Field)
		if el {
			return r, k + "." + f.Name(), true, et
		}
		if k == "" {
			return r, sName + "." + f.Name(), false, nil
		}
		return r, k + "." + f.Name(), false, nil
	case *ssa.IndexAddr:
		r, k, _, _ := addrRoot(x.X)
		_ = k
		switch t := under(x.X.Type()).(type) {
		case *types.Slice:
			return r, elemKey(t.Elem()), true, t.Elem()
		case *types.Pointer:
			if at, ok := under(t.Elem()).(*types.Array); ok {
				return r, elemKey(at.Elem()), true, at.Elem()
			}
		}
		return r, "", true, nil
	}
	return v, "", false, nil
}

func (e *Engine) scanFootprint(fn *ssa.Function, blocks map[*ssa.BasicBlock]bool, fp *footprint, seen map[*ssa.Function]bool) {
	for _, b := range fn.Blocks {
		if blocks != nil && !blocks[b] {
			continue
		}
		for _, in := range b.Instrs {
			switch x := in.(type) {
			case *ssa.Store:
				root, key, isElem, elemT := addrRoot(x.Addr)
				if a, ok := root.(*ssa.Alloc); ok && !(isElem && !isArrayAlloc(a)) {
					fp.allocs[a] = true
					if !isElem {
						continue
					}
				}
				if isElem {
					if elemT != nil {
						fp.mem[key] = x.Val.Type()
						if i := strings.Index(key, "."); i < 0 {
							fp.mem[key] = elemT
						}
					}
					continue
				}
				if key != "" {
					fp.heap[key] = x.Val.Type()
				} else if _, ok := root.(*ssa.Global); ok {
					fp.heap["g:"+globalKey(root.(*ssa.Global))] = x.Val.Type()
				} else {
					// store through an opaque pointer
					if pt, ok := x.Addr.Type().(*types.Pointer); ok {
						fp.heap[typeName(pt.Elem())] = pt.Elem()
					}
				}
			case *ssa.MapUpdate:
				hk, vk, mt := e.mapKeys(x.Map.Type())
				fp.heap[hk] = nil
				fp.heap[vk] = mt.Elem()
			case ssa.CallInstruction:
				cc := x.Common()
				// cells whose address is passed
				for _, a := range cc.Args {
					if al, ok := a.(*ssa.Alloc); ok {
						fp.allocs[al] = true
					}
				}
				if bi, ok := cc.Value.(*ssa.Builtin); ok {
					switch bi.Name() {
					case "copy", "append":
						if sl, ok := under(cc.Args[0].Type()).(*types.Slice); ok {
							fp.mem[elemKey(sl.Elem())] = sl.Elem()
						}
					case "delete":
						hk, _, _ := e.mapKeys(cc.Args[0].Type())
						fp.heap[hk] = nil
					case "close":
						fp.heap["chan.closed"] = nil
					}
					continue
				}
				if _, isGo := in.(*ssa.Go); isGo {
					continue
				}
				var callee *ssa.Function
				if !cc.IsInvoke() {
					callee = cc.StaticCallee()
					if mc, ok := cc.Value.(*ssa.MakeClosure); ok {
						callee = mc.Fn.(*ssa.Function)
						for _, bnd := range mc.Bindings {
							if al, ok := bnd.(*ssa.Alloc); ok {
								fp.allocs[al] = true
							}
						}
					}
				}
				var fc *FnContract
				if callee != nil {
					fc = e.ByFn[callee]
					if fc == nil {
						if o, ok := callee.Object().(*types.Func); ok && o != nil {
							fc = e.Contracts[e.objKey(o)]
						}
					}
				} else if cc.IsInvoke() {
					fc = e.Contracts[e.objKey(cc.Method)]
				}
				if fc != nil && !fc.B.Inline {
					e.contractFootprint(fc, fp)
					continue
				}
				if callee != nil && len(callee.Blocks) > 0 {
					if !seen[callee] {
						seen[callee] = true
						e.scanFootprint(callee, nil, fp, seen)
					}
					continue
				}
				if callee != nil && (e.Uninterp[callee] || e.GhostAcc[callee]) {
					continue
				}
				if callee != nil {
					nm := callee.Name()
					if nm == "Errorf" || nm == "New" || nm == "Sprintf" || strings.HasPrefix(nm, "gvc") || nm == "oldBegin" || nm == "oldEnd" {
						continue
					}
				}
				if tn := typeName(cc.Value.Type()); tn == "context.CancelFunc" {
					continue
				}
				fp.all = true
			case *ssa.Send:
				fp.heap["chan."] = nil
			case *ssa.Select:
				fp.heap["chan."] = nil
			case *ssa.MakeClosure:
				for _, bnd := range x.Bindings {
					if al, ok := bnd.(*ssa.Alloc); ok {
						fp.allocs[al] = true
					}
				}
			}
		}
	}
}

func isArrayAlloc(a *ssa.Alloc) bool {
	_, ok := under(a.Type().(*types.Pointer).Elem()).(*types.Array)
	return ok
}

// contractFootprint adds the keys a contract's modifies clauses may touch (statically).
func (e *Engine) contractFootprint(fc *FnContract, fp *footprint) {
	for _, cf := range fc.Modifies {
		if cf.Fn == nil {
			continue
		}
		for _, b := range cf.Fn.Blocks {
			for _, in := range b.Instrs {
				call, ok := in.(*ssa.Call)
				if !ok {
					continue
				}
				callee := call.Call.StaticCallee()
				if callee == nil {
					continue
				}
				nm := callee.Name()
				if o := callee.Origin(); o != nil {
					nm = o.Name()
				}
				switch nm {
				case "gvcMod", "gvcModAll":
					arg := call.Call.Args[0]
					_, key, isElem, _ := addrRoot(arg)
					pt, _ := arg.Type().(*types.Pointer)
					if isElem || pt == nil {
						fp.all = true
						continue
					}
					if key == "" {
						// pointer to a whole object
						if s, name := structOf(pt); s != nil {
							fp.heap[name] = pt.Elem()
							key = name
						} else {
							fp.all = true
						}
						continue
					}
					fp.heap[key] = pt.Elem()
					// embedded arrays are regions
					for _, l := range flatten(pt.Elem()) {
						if l.Sort == nil {
							at := under(l.T).(*types.Array)
							fp.mem[elemKey(at.Elem())] = at.Elem()
						}
					}
				case "gvcModElems":
					if sl, ok := under(call.Call.Args[0].Type()).(*types.Slice); ok {
						fp.mem[elemKey(sl.Elem())] = sl.Elem()
					}
				case "gvcModChan":
					fp.heap["chan."] = nil
				case "gvcModMap":
					hk, vk, mt := e.mapKeys(call.Call.Args[0].Type())
					fp.heap[hk] = nil
					fp.heap[vk] = mt.Elem()
				}
			}
		}
	}
}

func (e *Engine) havocLoop(st *State, fr *Frame, li *loopInfo, lc *LoopContract) {
	c := e.C
	e.havocCalls(st)
	fp := newFootprint()
	e.scanFootprint(fr.Fn, li.Blocks, fp, map[*ssa.Function]bool{fr.Fn: true})
	if fp.all {
		e.fail("loop %d of %s calls code whose effects are unknown", li.Ord, fr.Fn)
	}
	// local cells
	for a := range fp.allocs {
		if li.Blocks[a.Block()] {
			continue // re-created in every iteration
		}
		pv, ok := fr.Vals[a].(*PtrV)
		if !ok {
			continue
		}
		nv := e.freshOfType(st, pv.Cell.T, "loop$"+a.Comment)
		// idiom "b = b[k:]": every assignment in the loop re-slices the variable itself,
		// so the backing region cannot change.
		if sv, ok := nv.(*SliceV); ok {
			if old, ok := st.Cells[pv.Cell].(*SliceV); ok && resliceOnly(a, li.Blocks) {
				sv.Region = old.Region
			}
		}
		st.Cells[pv.Cell] = nv
	}
	if lc.Modifies != nil {
		// object-granular havoc as declared; checked at the back edge (loopFrameCheck)
		e.runModFn(st, fr, lc.Modifies, clauseEnv{params: fr.Params, locals: e.localResolver(st, fr, li)}, nil)
		// remember the head state for the frame check
		e.headStates[headKey(fr, li)] = st.Clone()
		return
	}
	for key, t := range fp.heap {
		if t == nil {
			// prefix havoc of existing keys
			for _, k := range sortedKeys(st.Heap) {
				if strings.HasPrefix(k, key) {
					st.Heap[k] = c.Fresh("loop$"+k, st.Heap[k].Sort)
				}
			}
			continue
		}
		for _, l := range e.leafKeys(key, t) {
			if l.Sort == nil {
				continue
			}
			st.Heap[l.Path] = c.Fresh("loop$"+l.Path, smt.Arr(smt.BV64, l.Sort))
		}
	}
	for key, t := range fp.mem {
		if scalarSort(t) != nil || strings.Contains(key, ".") {
			s := scalarSort(t)
			if s == nil {
				continue
			}
			st.Mem[key] = c.Fresh("loop$mem$"+key, smt.Arr(smt.BV64, smt.Arr(smt.BV64, s)))
			continue
		}
		for _, l := range e.leafKeys(key, t) {
			st.Mem[l.Path] = c.Fresh("loop$mem$"+l.Path, smt.Arr(smt.BV64, smt.Arr(smt.BV64, l.Sort)))
		}
	}
}

func headKey(fr *Frame, li *loopInfo) string { return fmt.Sprintf("%d/%d", fr.ID, li.Header.Index) }

// loopFrameCheck: with an explicit loop modifies clause, everything outside the
// declared locations must be unchanged after one iteration.
func (e *Engine) loopFrameCheck(st *State, fr *Frame, li *loopInfo, lc *LoopContract, fcName string) {
	head := e.headStates[headKey(fr, li)]
	if head == nil {
		e.fail("internal: no head state for loop frame check")
	}
	allowed := &modSet{heap: map[string][]*smt.Term{}, mem: map[string][]*smt.Term{}}
	hs := head.Clone()
	e.runModFn(hs, fr, lc.Modifies, clauseEnv{params: fr.Params, locals: e.localResolver(head, fr, li)}, allowed)
	e.frameObligations(st, fr, head, allowed, fmt.Sprintf("loop%d", li.Ord), fcName)
}

// frameObligations emits, for every heap/memory key whose array changed between
// base and st, the obligation that it changed only at allowed locations.
func (e *Engine) frameObligations(st *State, fr *Frame, base *State, allowed *modSet, label, fcName string) {
	c := e.C
	allocBase := e.allocMap(base)
	for _, key := range sortedKeys(st.Heap) {
		if key == "$alloc" || key == "chan.closed" || strings.Contains(key, ".ghostFW.") || frameExempt(key) {
			continue // allocation and channel closure are driven by the environment as well;
			// the destination of a pooled flate writer is re-pointed by whoever takes it from the pool
		}
		now := st.Heap[key]
		was, ok := base.Heap[key]
		if !ok {
			was = e.C.Var("heap$"+key, now.Sort)
		}
		if now == was {
			continue
		}
		if peelsTo(now, was, allowed.heap[key]) {
			e.Stats["frame-syntactic"]++
			continue
		}
		o := c.Fresh("frame$obj", smt.BV64)
		var conds []*smt.Term
		conds = append(conds, c.Select(allocBase, o))
		for _, a := range allowed.heap[key] {
			conds = append(conds, c.Not(c.Eq(o, a)))
		}
		g := c.Implies(c.And(conds...), c.Eq(c.Select(now, o), c.Select(was, o)))
		e.obligeNamed(st, fr, "frame", label+":"+key, g, "", nil, fcName)
	}
	for _, key := range sortedKeys(st.Mem) {
		if fr.V != nil && fr.V.FC != nil && strings.Contains(","+fr.V.FC.B.Opts["noframe"]+",", ",mem:"+key+",") {
			continue // frame of this memory kind is explicitly not claimed for this function
		}
		now := st.Mem[key]
		was, ok := base.Mem[key]
		if !ok {
			was = e.C.Var("mem$"+key, now.Sort)
		}
		if now == was {
			continue
		}
		if peelsTo(now, was, allowed.mem[key]) {
			e.Stats["frame-syntactic"]++
			continue
		}
		r := c.Fresh("frame$region", smt.BV64)
		k := c.Fresh("frame$idx", smt.BV64)
		var conds []*smt.Term
		conds = append(conds, c.Select(allocBase, r))
		for _, a := range allowed.mem[key] {
			conds = append(conds, c.Not(c.Eq(r, a)))
		}
		g := c.Implies(c.And(conds...), c.Eq(c.Select(c.Select(now, r), k), c.Select(c.Select(was, r), k)))
		e.obligeNamed(st, fr, "frame", label+":mem:"+key, g, "", nil, fcName)
	}
}

// localResolver maps a clause variable to the current value of the local it names.
func (e *Engine) localResolver(st *State, fr *Frame, li *loopInfo) func(v VarRef) Value {
	return func(v VarRef) Value {
		switch v.Kind {
		case "rangeindex":
			// the hidden counter of a range loop: loaded first thing in the header
			for _, in := range li.Header.Instrs {
				if u, ok := in.(*ssa.UnOp); ok && u.Op == token.MUL {
					if a, ok := u.X.(*ssa.Alloc); ok && a.Comment == "rangeindex" {
						return e.load(st, fr.Vals[a], types.Typ[types.Int], "")
					}
				}
			}
			e.fail("loop %d of %s is not a range loop (rangeindex)", li.Ord, fr.Fn)
		case "local":
			a := e.allocFor(fr, v.Obj)
			if a == nil {
				e.fail("no storage found for local %s in %s", v.Name, fr.Fn)
			}
			pv, ok := fr.Vals[a]
			if !ok {
				e.fail("local %s of %s is not live at the loop head", v.Name, fr.Fn)
			}
			return e.load(st, pv, v.Type, "")
		}
		e.fail("unexpected clause variable kind %s", v.Kind)
		return nil
	}
}

func (e *Engine) allocFor(fr *Frame, obj *types.Var) *ssa.Alloc {
	for _, b := range fr.Fn.Blocks {
		for _, in := range b.Instrs {
			if a, ok := in.(*ssa.Alloc); ok && a.Pos() == obj.Pos() && a.Comment == obj.Name() {
				return a
			}
		}
	}
	return nil
}

func (e *Engine) evalLoopClauseV(st *State, fr *Frame, cf *ClauseFn, li *loopInfo) Value {
	return e.evalClause(st, fr, cf, clauseEnv{params: fr.Params, locals: e.localResolver(st, fr, li)})
}

func (e *Engine) evalLoopClause(st *State, fr *Frame, cf *ClauseFn, li *loopInfo) *smt.Term {
	return e.evalLoopClauseV(st, fr, cf, li).(*smt.Term)
}

// resliceOnly: all stores to the slice variable a inside the loop are of the form a = a[x:y].
func resliceOnly(a *ssa.Alloc, blocks map[*ssa.BasicBlock]bool) bool {
	for _, r := range *a.Referrers() {
		if !blocks[r.Block()] {
			continue
		}
		switch x := r.(type) {
		case *ssa.Store:
			if x.Addr != a {
				return false
			}
			sl, ok := x.Val.(*ssa.Slice)
			if !ok {
				return false
			}
			ld, ok := sl.X.(*ssa.UnOp)
			if !ok || ld.X != a {
				return false
			}
		case *ssa.UnOp, *ssa.DebugRef:
		default:
			return false
		}
	}
	return true
}

// peelsTo: now is was with stores only at allowed indices (syntactic check).
func peelsTo(now, was *smt.Term, allowed []*smt.Term) bool {
	ok := map[*smt.Term]bool{}
	for _, a := range allowed {
		ok[a] = true
	}
	for now != was {
		if now.Op != smt.OStore || !ok[now.Args[1]] {
			return false
		}
		now = now.Args[0]
	}
	return true
}

// frameExempt: heap keys whose changes are not frame-checked, with the reason.
//   websocket.slidingWindow.buf.*: a window is reset (buf = buf[:0]) by
//   slidingWindow.close immediately before its only reference (msgReader.dict) is set
//   to nil and the object goes back to its pool, so the change is unobservable through
//   the connection; contracts of slidingWindow's own methods state their effect on it.
func frameExempt(key string) bool {
	// ghost records of the HTTP handshake (header values Set, request handed to the client):
	// ghost-only state attached to objects the functions create themselves; its frame is
	// not claimed
	if strings.Contains(key, ".ghostHdr.") || strings.Contains(key, ".ghostClient.") || strings.HasSuffix(key, "map[string]string") {
		return true
	}
	return strings.HasPrefix(key, "websocket.slidingWindow.buf.")
}
