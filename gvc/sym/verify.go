package sym

import (
	"strconv"
	"fmt"
	"go/types"
	"os"
	"runtime/debug"
	"sort"
	"strings"
	"sync"
	"time"

	"golang.org/x/tools/go/ssa"

	"gvc/smt"
)

// symbolicInput builds the symbolic value of an input of type t with stable names.
func (e *Engine) symbolicInput(st *State, t types.Type, name string) Value {
	c := e.C
	if s := scalarSort(t); s != nil {
		v := c.Var(name, s)
		if s == smt.BV64 {
			if _, isBasic := under(t).(*types.Basic); !isBasic {
				e.preexisting(st, v)
			}
		}
		return v
	}
	switch u := under(t).(type) {
	case *types.Slice:
		sv := &SliceV{Region: c.Var(name+".reg", smt.BV64), Off: c.Var(name+".off", smt.BV64), Len: c.Var(name+".len", smt.BV64), Cap: c.Var(name+".cap", smt.BV64), Elem: u.Elem()}
		st.Assume(e.validSlice(sv))
		e.preexisting(st, sv.Region)
		return sv
	case *types.Struct:
		out := &StructV{T: t}
		for i := 0; i < u.NumFields(); i++ {
			out.F = append(out.F, e.symbolicInput(st, u.Field(i).Type(), name+"."+u.Field(i).Name()))
		}
		return out
	}
	return c.Var(name, smt.BV64)
}

// VerifyFn generates the obligations of one function under contract.
func (e *Engine) VerifyFn(fc *FnContract) {
	start := len(e.Obligs)
	defer func() {
		if r := recover(); r != nil {
			if ee, ok := r.(execError); ok {
				e.toolErr("%s: %s", fc.Key, ee.msg)
			} else {
				e.toolErr("%s: internal error: %v\n%s", fc.Key, r, debug.Stack())
			}
			// obligations of a function that could not be fully explored are unusable
			e.Obligs = e.Obligs[:start]
		}
	}()
	if fc.Lemma {
		e.verifyLemma(fc)
		return
	}
	fn := fc.Fn
	if fn == nil || len(fn.Blocks) == 0 {
		e.fail("no body to verify")
	}
	st := NewState()
	V := &VerifyCtx{Fn: fn, FC: fc, Tags: fc.B.Tags, nOblig: map[string]int{}}
	fr := e.newFrame(fn, nil, V)
	if fc.ClosureOf != nil {
		// captured variables: cells with arbitrary contents; their entry values lead the
		// parameter list of the clause functions
		vals := map[string]Value{}
		for _, fv := range fn.FreeVars {
			pt, ok := fv.Type().(*types.Pointer)
			if !ok {
				e.fail("free variable %s of %s is not captured by reference", fv.Name(), fc.Key)
			}
			e.nextCell++
			cell := &Cell{ID: e.nextCell, Name: "free$" + fv.Name(), T: pt.Elem()}
			v := e.symbolicInput(st, pt.Elem(), "in$"+fv.Name())
			st.Cells[cell] = v
			vals[fv.Name()] = v
			fr.Free = append(fr.Free, &PtrV{Kind: PCell, T: pt.Elem(), Cell: cell})
		}
		for _, nm := range fc.Captured {
			v, ok := vals[nm]
			if !ok {
				e.fail("captured variable %s of %s not among the closure's free variables", nm, fc.Key)
			}
			fr.Params = append(fr.Params, v)
		}
	}
	nCapt := len(fr.Params)
	fr.POff = nCapt
	for i, p := range fn.Params {
		nm := p.Name()
		if nCapt+i < len(fc.PNames) {
			nm = fc.PNames[nCapt+i]
		}
		fr.Params = append(fr.Params, e.symbolicInput(st, p.Type(), "in$"+nm))
	}
	V.Entry = fr.Params
	// the nil reference / nil region is never an allocated object
	st.Assume(e.C.Not(e.C.Select(e.allocMap(st), e.i64(0))))
	// sentinel errors are non-nil (known syntactically, so that impossible branches are pruned)
	for _, sn := range e.sentinels() {
		st.Assume(e.C.Not(e.C.Eq(sn, e.i64(0))))
	}
	env := clauseEnv{params: fr.Params}
	for _, rq := range fc.Requires {
		st.Assume(e.evalClause(st, fr, rq, env).(*smt.Term))
	}
	for _, in := range fc.Inputs {
		if t, ok := e.evalClause(st, fr, in, env).(*smt.Term); ok {
			V.Inputs = append(V.Inputs, NamedTerm{in.C.Label, t})
		}
	}
	st.Pre = st.Clone()
	V.Pre = st.Pre
	// vacuity guard: the assumptions at entry (type invariants + requires) must be satisfiable
	e.coverCheck(fc.Key+"/cover/entry", st.PC)
	e.exec(fr, fn.Blocks[0], 0, st, func(st2 *State, res []Value) {
		// ... and every return statement must be reached by a feasible path (the first
		// few paths per return site are recorded; one satisfiable one suffices)
		site := "end"
		if n := len(st2.Trace); n > 0 {
			site = st2.Trace[n-1]
		}
		if len(st2.Trace) >= 1 {
			// the last branch decision before the return identifies the site well enough
			for i := len(st2.Trace) - 1; i >= 0; i-- {
				if st2.Trace[i] != "return" {
					site = st2.Trace[i]
					break
				}
			}
		}
		key := fc.Key + "/cover/return-after:" + site
		if V.nOblig["cover:"+key] < 12 {
			V.nOblig["cover:"+key]++
			e.coverCheck(key, st2.PC)
		}
		V.Returns++
		if V.Returns > maxPaths {
			e.fail("more than %d paths", maxPaths)
		}
		e.atReturn(st2, fr, fc, res)
	})
	if V.Returns == 0 {
		e.toolErr("%s: no path reaches a return (vacuous)", fc.Key)
	}
	e.Stats["paths:"+fc.Key] = V.Returns
}

func (e *Engine) atReturn(st *State, fr *Frame, fc *FnContract, res []Value) {
	V := fr.V
	env := clauseEnv{params: V.Entry, results: res}
	st.Trace = append(st.Trace, "return")
	for _, en := range fc.Ensures {
		if HasTag(en.C.Tags, "assume") {
			// clause marked {assume}: used by callers, not proved against the body
			e.UsedAssumed[fc.Key+" ["+en.C.Label+"] (assumed clause)"] = true
			// (a definition: also available to the clauses that follow it)
			st.Assume(e.evalClause(st, fr, en, env).(*smt.Term))
			continue
		}
		g := e.evalClause(st, fr, en, env).(*smt.Term)
		e.obligeNamed(st, fr, "ensures", en.C.Label, g, "", en.C.Tags, "")
	}
	allowed := &modSet{heap: map[string][]*smt.Term{}, mem: map[string][]*smt.Term{}}
	e.evalModifies(V.Pre.Clone(), fr, fc, V.Entry, allowed)
	e.frameObligations(st, fr, V.Pre, allowed, "modifies", "")
}

func (e *Engine) verifyLemma(fc *FnContract) {
	// parameters come from the generated clause functions' own signatures
	if len(fc.Ensures) == 0 {
		e.fail("lemma without ensures")
	}
	st := NewState()
	V := &VerifyCtx{FC: fc, Tags: fc.B.Tags, nOblig: map[string]int{}}
	fn0 := fc.Ensures[0].Fn
	V.Fn = fn0
	fr := e.newFrame(fn0, nil, V)
	var params []Value
	for _, p := range fn0.Params {
		params = append(params, e.symbolicInput(st, p.Type(), "in$"+p.Name()))
	}
	for _, rq := range fc.Requires {
		st.Assume(e.evalPure(st, fr, rq.Fn, nil, params).(*smt.Term))
	}
	for _, en := range fc.Ensures {
		g := e.evalPure(st, fr, en.Fn, nil, params).(*smt.Term)
		e.obligeNamed(st, fr, "lemma", en.C.Label, g, "", en.C.Tags, "")
	}
}

// coverCheck: the conjunction of hyps must not be refutable (a contradictory contract
// would make every obligation vacuously true). Quantified hypotheses are dropped (the
// check is then an under-approximation of satisfiability: "unsat" is definite).
func (e *Engine) coverCheck(name string, hyps []*smt.Term) {
	var hy []*smt.Term
	for _, h := range hyps {
		if h.Op != smt.OForall && h.Op != smt.OExists {
			hy = append(hy, h)
		}
	}
	e.Covers = append(e.Covers, &Cover{Name: name, Hyps: hy})
}

type Cover struct {
	Name   string
	Hyps   []*smt.Term
	Status string
}

// RunCovers decides the cover obligations; a definite "unsat" is a vacuity error.
func (e *Engine) RunCovers(jobs int) {
	type cj struct {
		c      *Cover
		script string
	}
	var js []*cj
	for _, cv := range e.Covers {
		asserts := append([]*smt.Term(nil), cv.Hyps...)
		asserts = append(asserts, e.literalAxioms(asserts)...)
		asserts = append(asserts, e.sentinelAxioms(asserts)...)
		js = append(js, &cj{cv, e.C.Script("ALL", asserts, nil, false)})
	}
	var wg sync.WaitGroup
	ch := make(chan *cj)
	if jobs <= 0 {
		jobs = 8
	}
	for w := 0; w < jobs; w++ {
		wg.Add(1)
		go func() {
			defer wg.Done()
			for j := range ch {
				r := smt.Solve(j.script, smt.DefaultSolvers(10), 10*time.Second, 1)
				j.c.Status = r.Status
				if d := os.Getenv("GVC_DUMP_COVER"); d != "" && r.Status == "unsat" {
					nm := strings.NewReplacer("/", "_", " ", "_", "*", "", "(", "", ")", "", ":", "_").Replace(j.c.Name)
					smt.DumpScript(d, nm, j.script)
				}
			}
		}()
	}
	for _, j := range js {
		ch <- j
	}
	close(ch)
	wg.Wait()
	// a cover point (function entry, return site) is fine if one of its recorded paths is
	// not refuted; it is vacuous if all of them are definitely unsatisfiable
	byName := map[string][]*Cover{}
	var names []string
	for _, cv := range e.Covers {
		if _, ok := byName[cv.Name]; !ok {
			names = append(names, cv.Name)
		}
		byName[cv.Name] = append(byName[cv.Name], cv)
	}
	for _, nm := range names {
		all := true
		for _, cv := range byName[nm] {
			if cv.Status != "unsat" {
				all = false
			}
		}
		if all {
			if strings.Contains(nm, "/cover/entry") {
				e.toolErr("%s: VACUOUS: the assumptions at function entry are contradictory", nm)
			} else {
				e.Stats["cover-infeasible-return-sites"]++
				e.InfeasibleSites = append(e.InfeasibleSites, nm)
			}
		}
	}
}

// ---------- discharge ----------

type subgoal struct {
	hyps []*smt.Term
	goal *smt.Term
	sk   []*smt.Term
	// arith: internally generated address-arithmetic side condition; memory facts
	// are irrelevant to it and are left out of the query
	arith bool
}

// caseSplit splits a goal that reads memory at a skolem-dependent address over a
// chain of stores into one case per store address (the skolem is solved for, so the
// read resolves syntactically) plus the residual case "none of them".
func (e *Engine) caseSplit(hyps []*smt.Term, goal *smt.Term, sk []*smt.Term) []subgoal {
	c := e.C
	whole := []subgoal{{hyps, goal, sk, false}}
	if len(sk) == 0 {
		return whole
	}
	isSk := map[*smt.Term]bool{}
	for _, s := range sk {
		isSk[s] = true
	}
	// store addresses and skolem-dependent select indices in the goal
	var stores []*smt.Term
	sseen := map[*smt.Term]bool{}
	var selIdx *smt.Term
	var theSk, base *smt.Term
	seen := map[*smt.Term]bool{}
	var rec func(t *smt.Term)
	rec = func(t *smt.Term) {
		if seen[t] {
			return
		}
		seen[t] = true
		if t.Op == smt.OStore && t.Args[1].Sort == smt.BV64 && t.Sort.Elem.K != smt.KArr {
			if !sseen[t.Args[1]] {
				sseen[t.Args[1]] = true
				stores = append(stores, t.Args[1])
			}
		}
		if t.Op == smt.OSelect && t.Args[1].Sort == smt.BV64 && selIdx == nil && t.Args[0].Op == smt.OStore {
			idx := t.Args[1]
			if isSk[idx] {
				selIdx, theSk, base = idx, idx, nil
			} else if idx.Op == smt.OBvAdd && len(idx.Args) == 2 {
				if isSk[idx.Args[0]] {
					selIdx, theSk, base = idx, idx.Args[0], idx.Args[1]
				} else if isSk[idx.Args[1]] {
					selIdx, theSk, base = idx, idx.Args[1], idx.Args[0]
				}
			}
		}
		for _, a := range t.Args {
			rec(a)
		}
	}
	rec(goal)
	if selIdx == nil || len(stores) < 3 || len(stores) > 400 {
		return whole
	}
	// strip: reads at selIdx see through all stores of the chain (valid when the
	// address differs from every store address).
	inSet := map[*smt.Term]bool{}
	for _, a := range stores {
		inSet[a] = true
	}
	cache := map[*smt.Term]*smt.Term{}
	var strip func(t *smt.Term) *smt.Term
	strip = func(t *smt.Term) *smt.Term {
		if len(t.Args) == 0 {
			return t
		}
		if r, ok := cache[t]; ok {
			return r
		}
		var r *smt.Term
		if t.Op == smt.OSelect && t.Args[1] == selIdx {
			a := t.Args[0]
			for a.Op == smt.OStore && inSet[a.Args[1]] {
				a = a.Args[0]
			}
			r = c.Select(strip(a), selIdx)
		} else {
			args := make([]*smt.Term, len(t.Args))
			ch := false
			for i, x := range t.Args {
				args[i] = strip(x)
				if args[i] != x {
					ch = true
				}
			}
			r = t
			if ch {
				r = c.Rebuild(t, args)
			}
		}
		cache[t] = r
		return r
	}
	// contiguity of the store addresses
	var contFirst, contN *smt.Term
	if b0, k0 := c.SplitAdd(stores[0]); b0 != nil {
		lo, hi := k0, k0
		okc := true
		ks := map[uint64]bool{}
		for _, a := range stores {
			b, k := c.SplitAdd(a)
			if b != b0 {
				okc = false
				break
			}
			ks[k] = true
			if int64(k) < int64(lo) {
				lo = k
			}
			if int64(k) > int64(hi) {
				hi = k
			}
		}
		if okc && uint64(len(ks)) == hi-lo+1 {
			contFirst = c.Add(b0, c.BVC(64, lo))
			contN = c.BVC(64, hi-lo+1)
		}
	}
	if contFirst != nil {
		// pre-check: is the address provably outside the written range? (one cheap
		// arithmetic query); then the whole goal reads through the stores.
		inRange := c.Ult(c.Sub(selIdx, contFirst), contN)
		var hs []*smt.Term
		for _, h := range hyps {
			if !mentionsArrays(h) {
				hs = append(hs, h)
			}
		}
		asserts := append(append([]*smt.Term(nil), hs...), inRange)
		r := smt.Solve(c.Script("ALL", asserts, nil, false), smt.DefaultSolvers(5), 5*time.Second, 1)
		e.Stats["split-prechecks"]++
		if r.Status == "unsat" {
			e.Stats["split-prechecks-outside"]++
			return []subgoal{{hyps, strip(goal), sk, false}}
		}
	}
	var out []subgoal
	var residual []*smt.Term
	for _, a := range stores {
		val := a
		if base != nil {
			val = c.Sub(a, base)
		}
		m := map[*smt.Term]*smt.Term{theSk: val}
		var hs []*smt.Term
		for _, h := range hyps {
			hs = append(hs, c.Subst(h, m))
		}
		var nsk []*smt.Term
		for _, s := range sk {
			if s == theSk {
				nsk = append(nsk, val)
			} else {
				nsk = append(nsk, s)
			}
		}
		out = append(out, subgoal{hs, c.Subst(goal, m), nsk, false})
		residual = append(residual, c.Not(c.Eq(selIdx, a)))
	}
	// Contiguous store addresses first..first+N-1. With d = first-base the index of
	// the first store, the residual is decomposed into solver-checked pieces that avoid
	// a pigeonhole over bit-blasted disequalities:
	//   side : hyps |- 0 <= d <= 2^62
	//   lemma: 0 <= d <= 2^62 |- x < d  or  x >= d+N  or  x-d <u N      (context free)
	//   lo   : hyps, sk <  d   |- address outside the range  and  strip(goal)
	//   hi   : hyps, sk >= d+N |- address outside the range  and  strip(goal)
	// In the remaining case sk-d <u N the address equals one of the store addresses,
	// which the per-store cases above cover.
	if contFirst != nil {
		{
			n := contN
			first := contFirst
			d := first
			if base != nil {
				d = c.Sub(first, base)
			}
			inRange := c.Ult(c.Sub(selIdx, first), n)
			big := c.BVC(64, 1<<62)
			zero := c.BVC(64, 0)
			// side condition
			out = append(out, subgoal{hyps, c.And(c.Sle(zero, d), c.Sle(d, big)), sk, true})
			// lemma (fresh symbols)
			ld := c.Fresh("lemma$d", smt.BV64)
			lx := c.Fresh("lemma$x", smt.BV64)
			out = append(out, subgoal{[]*smt.Term{c.Sle(zero, ld), c.Sle(ld, big)},
				c.Or(c.Slt(lx, ld), c.Sle(c.Add(ld, n), lx), c.Ult(c.Sub(lx, ld), n)), nil, true})
			for _, side := range []*smt.Term{c.Slt(theSk, d), c.Sle(c.Add(d, n), theSk)} {
				hs := append(append([]*smt.Term(nil), hyps...), side)
				out = append(out, subgoal{hs, c.Not(inRange), sk, true})
				out = append(out, subgoal{hs, strip(goal), sk, false})
			}
			return out
		}
	}
	out = append(out, subgoal{append(append([]*smt.Term(nil), hyps...), residual...), strip(goal), sk, false})
	return out
}

// splitGoal skolemises universal quantifiers and splits conjunctions.
func (e *Engine) splitGoal(g *smt.Term, hyps []*smt.Term, out *[]subgoal, sk *[]*smt.Term) {
	c := e.C
	switch g.Op {
	case smt.OAnd:
		for _, a := range g.Args {
			e.splitGoal(a, hyps, out, sk)
		}
		return
	case smt.OImplies:
		e.splitGoal(g.Args[1], append(append([]*smt.Term(nil), hyps...), g.Args[0]), out, sk)
		return
	case smt.OOr:
		// a or b or Q  ==  (not a and not b) => Q, for a disjunct Q that has structure
		pick := -1
		for i, a := range g.Args {
			if a.Op == smt.OForall || a.Op == smt.OExists || a.Op == smt.OAnd || a.Op == smt.OIte || a.Op == smt.OImplies {
				pick = i
			}
		}
		if pick < 0 {
			// (not forall x. P) or Q: the universal formula becomes a hypothesis
			nf := false
			for _, a := range g.Args {
				if a.Op == smt.ONot && a.Args[0].Op == smt.OForall {
					nf = true
				}
			}
			if nf {
				for i, a := range g.Args {
					if !(a.Op == smt.ONot && a.Args[0].Op == smt.OForall) {
						pick = i
					}
				}
				if pick < 0 {
					pick = len(g.Args) - 1
				}
			}
		}
		if pick >= 0 {
			nh := append([]*smt.Term(nil), hyps...)
			for i, a := range g.Args {
				if i != pick {
					nh = append(nh, c.Not(a))
				}
			}
			e.splitGoal(g.Args[pick], nh, out, sk)
			return
		}
	case smt.OIte:
		if g.Sort == smt.Bool {
			e.splitGoal(g.Args[1], append(append([]*smt.Term(nil), hyps...), g.Args[0]), out, sk)
			e.splitGoal(g.Args[2], append(append([]*smt.Term(nil), hyps...), c.Not(g.Args[0])), out, sk)
			return
		}
	case smt.ONot:
		if q := g.Args[0]; q.Op == smt.OExists {
			e.splitGoal(c.Forall(q.BVars, c.Not(q.Args[0])), hyps, out, sk)
			return
		} else if q.Op == smt.OForall {
			e.splitGoal(c.Exists(q.BVars, c.Not(q.Args[0])), hyps, out, sk)
			return
		}
	case smt.OEq:
		// b == (quantified formula), b a boolean term: two implications
		if g.Args[0].Sort == smt.Bool {
			a, b := g.Args[0], g.Args[1]
			if a.Op == smt.OForall || a.Op == smt.OExists {
				a, b = b, a
			}
			if b.Op == smt.OForall || b.Op == smt.OExists {
				e.splitGoal(c.Implies(a, b), hyps, out, sk)
				e.splitGoal(c.Implies(c.Not(a), c.Not(b)), hyps, out, sk)
				return
			}
		}
	case smt.OExists:
		// exists x. P  is refuted from  forall x. not P  (instantiated engine-side with the
		// ground index terms of the query)
		e.splitGoal(c.False(), append(append([]*smt.Term(nil), hyps...), c.Forall(g.BVars, c.Not(g.Args[0]))), out, sk)
		return
	case smt.OForall:
		// constant small range: expand into one sub-goal per index
		if len(g.BVars) == 1 && g.Args[0].Op == smt.OImplies {
			rng := g.Args[0].Args[0]
			bv := g.BVars[0]
			if rng.Op == smt.OAnd && len(rng.Args) == 2 {
				lo, hi := rng.Args[0], rng.Args[1]
				if lo.Op == smt.OBvSle && lo.Args[1] == bv && lo.Args[0].IsConst() && hi.Op == smt.OBvSlt && hi.Args[0] == bv && hi.Args[1].IsConst() {
					l, h := int64(lo.Args[0].Val), int64(hi.Args[1].Val)
					if h-l <= 32 {
						for k := l; k < h; k++ {
							e.splitGoal(c.Subst(g.Args[0].Args[1], map[*smt.Term]*smt.Term{bv: c.BVC(64, uint64(k))}), hyps, out, sk)
						}
						return
					}
				}
			}
		}
		m := map[*smt.Term]*smt.Term{}
		for _, v := range g.BVars {
			s := c.Fresh("sk$"+strings.SplitN(v.Name, "?", 2)[0], v.Sort)
			m[v] = s
			*sk = append(*sk, s)
		}
		e.splitGoal(c.Subst(g.Args[0], m), hyps, out, sk)
		return
	}
	*out = append(*out, subgoal{hyps: hyps, goal: g})
}

func (e *Engine) literalAxioms(ts []*smt.Term) []*smt.Term {
	c := e.C
	seen := map[*smt.Term]bool{}
	var lits []*smt.Term
	var lens []*smt.Term
	var rec func(t *smt.Term)
	rec = func(t *smt.Term) {
		if seen[t] {
			return
		}
		seen[t] = true
		if t.Op == smt.OApp && t.Name == "slen" && !t.HasBound() {
			lens = append(lens, t)
		}
		if t.Op == smt.OVar && t.Sort == smt.Str {
			if _, ok := e.litOf(t); ok {
				lits = append(lits, t)
			}
		}
		for _, a := range t.Args {
			rec(a)
		}
	}
	for _, t := range ts {
		rec(t)
	}
	sort.Slice(lits, func(i, j int) bool { return lits[i].Name < lits[j].Name })
	var out []*smt.Term
	for _, l := range lens {
		// every string has a length in [0, 2^56]
		out = append(out, c.Sle(e.i64(0), l), c.Sle(l, e.i64(1<<56)))
	}
	for i, l := range lits {
		s, _ := e.litOf(l)
		out = append(out, c.Eq(c.App("slen", smt.BV64, l), e.i64(int64(len(s)))))
		for k := 0; k < len(s) && k < 40; k++ {
			out = append(out, c.Eq(c.App("sbyte", smt.BV8, l, e.i64(int64(k))), c.BVC(8, uint64(s[k]))))
		}
		for j := i + 1; j < len(lits); j++ {
			out = append(out, c.Not(c.Eq(l, lits[j])))
		}
	}
	return out
}

// relevant drops hypotheses that talk about dead array versions: a hypothesis is kept
// iff every array-sorted free symbol it mentions also occurs in the goal (or it
// mentions none). Dropping hypotheses is always sound.
// propagate performs unit propagation of literal hypotheses through implications and
// substitutes fresh symbols that are defined by an equation (v = t), to a fixpoint.
// The result is equivalent to the input (hyps |- goal), only syntactically simpler.
func (e *Engine) propagate(hyps []*smt.Term, goal *smt.Term) ([]*smt.Term, *smt.Term) {
	c := e.C
	isFreshVar := func(t *smt.Term) bool {
		if t.Op != smt.OVar || t.Sort.K == smt.KArr {
			return false
		}
		n := t.Name
		return strings.HasPrefix(n, "havoc$") || strings.HasPrefix(n, "ret$") || strings.HasPrefix(n, "loop$") || strings.HasPrefix(n, "appendcap")
	}
	contains := func(t, v *smt.Term) bool {
		for _, x := range smt.FreeVars(t) {
			if x == v {
				return true
			}
		}
		return false
	}
	for round := 0; round < 12; round++ {
		changed := false
		truth := map[*smt.Term]bool{} // literal -> known value
		composite := func(t *smt.Term) bool {
			if os.Getenv("GVC_NEW_PROP") == "" {
				// disjunctions are treated as atoms here (cheap); a disjunction with a quantified
				// disjunct is handled by the guarded instantiation instead
				return t.Op == smt.OAnd || t.Op == smt.OImplies || t.Op == smt.OForall
			}
			switch t.Op {
			case smt.OAnd, smt.OOr, smt.OImplies, smt.OForall, smt.OExists, smt.ONot:
				return true
			case smt.OIte:
				return t.Sort == smt.Bool
			}
			return false
		}
		for _, h := range hyps {
			if h.Op == smt.ONot {
				if !composite(h.Args[0]) {
					truth[h.Args[0]] = false
				}
			} else if !composite(h) {
				truth[h] = true
			}
		}
		// rewrite known literals inside other hypotheses
		m := map[*smt.Term]*smt.Term{}
		for l, v := range truth {
			if l.Op == smt.OConst {
				continue
			}
			m[l] = c.BoolC(v)
		}
		var nh []*smt.Term
		seen := map[*smt.Term]bool{}
		sb := c.NewSubst(m)
		for _, h := range hyps {
			var r *smt.Term
			lit := h
			if h.Op == smt.ONot {
				lit = h.Args[0]
			}
			if _, isLit := truth[lit]; isLit && !composite(lit) {
				r = h // literal hypotheses are kept as they are
			} else {
				r = sb.Apply(h)
			}
			if r != h {
				changed = true
			}
			var parts []*smt.Term
			e.splitHyp(r, &parts)
			for _, p := range parts {
				if !seen[p] {
					seen[p] = true
					nh = append(nh, p)
				}
			}
		}
		hyps = nh
		g2 := sb.Apply(goal)
		if g2 != goal {
			goal = g2
			changed = true
		}
		// definitional equalities
		sub := map[*smt.Term]*smt.Term{}
		for _, h := range hyps {
			if h.Op != smt.OEq {
				continue
			}
			a, b := h.Args[0], h.Args[1]
			if isFreshVar(b) && !isFreshVar(a) {
				a, b = b, a
			}
			if isFreshVar(a) && !contains(b, a) {
				if _, dup := sub[a]; !dup {
					// avoid cyclic substitutions within one round
					cyc := false
					for v := range sub {
						if contains(b, v) {
							cyc = true
						}
					}
					if !cyc {
						sub[a] = b
					}
				}
			}
		}
		if len(sub) > 0 {
			changed = true
			var nh2 []*smt.Term
			sb2 := c.NewSubst(sub)
			for _, h := range hyps {
				r := sb2.Apply(h)
				if !r.IsTrue() {
					nh2 = append(nh2, r)
				}
			}
			hyps = nh2
			goal = sb2.Apply(goal)
		}
		if !changed {
			break
		}
		if goal.IsTrue() {
			break
		}
	}
	return hyps, goal
}

// splitHyp breaks a hypothesis into independent conjuncts so that relevance
// filtering works at the granularity of single facts.
func (e *Engine) splitHyp(h *smt.Term, out *[]*smt.Term) {
	c := e.C
	switch h.Op {
	case smt.OAnd:
		for _, a := range h.Args {
			e.splitHyp(a, out)
		}
		return
	case smt.OExists:
		if !h.HasBound() {
			e.splitHyp(e.skolemBody(h), out)
			return
		}
	case smt.OOr:
		// a disjunct "not (forall x. P)" or "exists x. P" has a witness; name it
		if !h.HasBound() {
			changed := false
			var ds []*smt.Term
			for _, a := range h.Args {
				if a.Op == smt.ONot && a.Args[0].Op == smt.OForall {
					ds = append(ds, c.Not(e.skolemBody(a.Args[0])))
					changed = true
				} else if a.Op == smt.OExists {
					ds = append(ds, e.skolemBody(a))
					changed = true
				} else {
					ds = append(ds, a)
				}
			}
			if changed {
				e.splitHyp(c.Or(ds...), out)
				return
			}
		}
	case smt.ONot:
		// not (a and (forall x. P) and b): De Morgan, then the witness is named by the Or case
		if q := h.Args[0]; q.Op == smt.OAnd && !h.HasBound() {
			hasQ := false
			for _, a := range q.Args {
				if a.Op == smt.OForall {
					hasQ = true
				}
			}
			if hasQ {
				var ds []*smt.Term
				for _, a := range q.Args {
					ds = append(ds, c.Not(a))
				}
				e.splitHyp(c.Or(ds...), out)
				return
			}
		}
		// not (forall x. P): there is a witness; name it
		if q := h.Args[0]; q.Op == smt.OForall && !h.HasBound() {
			e.splitHyp(c.Not(e.skolemBody(q)), out)
			return
		}
	case smt.OImplies:
		// (forall x. P) ==> Q is equivalent to exists x. (P ==> Q): name the witness, so that
		// the engine-side instantiation of other quantified hypotheses can use it
		if q := h.Args[0]; q.Op == smt.OForall && !h.HasBound() {
			e.splitHyp(c.Implies(e.skolemBody(q), h.Args[1]), out)
			return
		}
		// a ==> exists x. P  is  exists x. (a ==> P)
		if q := h.Args[1]; q.Op == smt.OExists && !h.HasBound() {
			e.splitHyp(c.Implies(h.Args[0], e.skolemBody(q)), out)
			return
		}
		if q := h.Args[1]; q.Op == smt.ONot && q.Args[0].Op == smt.OForall && !h.HasBound() {
			e.splitHyp(c.Implies(h.Args[0], c.Not(e.skolemBody(q.Args[0]))), out)
			return
		}
		var cons []*smt.Term
		e.splitHyp(h.Args[1], &cons)
		if len(cons) > 1 {
			for _, x := range cons {
				*out = append(*out, c.Implies(h.Args[0], x))
			}
			return
		}
	case smt.OIte:
		if h.Sort == smt.Bool {
			e.splitHyp(c.Implies(h.Args[0], h.Args[1]), out)
			e.splitHyp(c.Implies(c.Not(h.Args[0]), h.Args[2]), out)
			return
		}
	}
	if !h.IsTrue() {
		*out = append(*out, h)
	}
}

// hasQuant: t contains a quantifier (memoized).
func (e *Engine) hasQuant(t *smt.Term) bool {
	if r, ok := e.hqMemo[t]; ok {
		return r
	}
	r := t.Op == smt.OForall || t.Op == smt.OExists
	if !r {
		for _, a := range t.Args {
			if e.hasQuant(a) {
				r = true
				break
			}
		}
	}
	e.hqMemo[t] = r
	return r
}

// skolemBody: the body of a universally quantified formula with its bound variables
// replaced by constants that are fixed per formula (used for existential witnesses).
func (e *Engine) skolemBody(q *smt.Term) *smt.Term {
	if r, ok := e.skMemo[q]; ok {
		return r
	}
	m := map[*smt.Term]*smt.Term{}
	for _, v := range q.BVars {
		m[v] = e.C.Fresh("wit$"+strings.SplitN(v.Name, "?", 2)[0], v.Sort)
	}
	r := e.C.Subst(q.Args[0], m)
	e.skMemo[q] = r
	return r
}

// versionedArrs: the fresh (non-input) array symbols of t, memoized per term. A
// hypothesis is dropped only if it mentions an array version that is dead: not in the
// state at the obligation, not in the goal, and not linked to a live one by a hypothesis.
func (e *Engine) versionedArrs(t *smt.Term) []*smt.Term {
	if r, ok := e.vaMemo[t]; ok {
		return r
	}
	var out []*smt.Term
	if t.Op == smt.OVar {
		n := t.Name
		base := strings.HasPrefix(n, "in$") || strings.HasPrefix(n, "heap$") || strings.HasPrefix(n, "mem$") || strings.HasPrefix(n, "g$") ||
			strings.HasPrefix(n, "str$") || strings.HasPrefix(n, "pure$") || strings.HasPrefix(n, "gaddr$")
		if !base && t.Sort.K == smt.KArr {
			out = []*smt.Term{t}
		}
	} else {
		for _, a := range t.Args {
			for _, v := range e.versionedArrs(a) {
				dup := false
				for _, o := range out {
					if o == v {
						dup = true
						break
					}
				}
				if !dup {
					out = append(out, v)
				}
			}
		}
	}
	e.vaMemo[t] = out
	return out
}

// smallSize: tree size of t, cut off at limit.
func smallSize(t *smt.Term, limit int) int {
	n := 1
	for _, a := range t.Args {
		if n > limit {
			return n
		}
		n += smallSize(a, limit-n)
	}
	return n
}

func (e *Engine) relevant(hyps []*smt.Term, goal *smt.Term, extra []*smt.Term, stateLive []*smt.Term) []*smt.Term {
	// connectivity through fresh symbols; hypotheses over input symbols only are kept
	arrVars := func(t *smt.Term) map[*smt.Term]bool {
		out := map[*smt.Term]bool{}
		for _, v := range e.versionedArrs(t) {
			out[v] = true
		}
		return out
	}
	live := arrVars(goal)
	for _, x := range extra {
		for v := range arrVars(x) {
			live[v] = true
		}
	}
	for _, v := range stateLive {
		live[v] = true
	}
	hv := make([]map[*smt.Term]bool, len(hyps))
	for i, h := range hyps {
		hv[i] = arrVars(h)
	}
	changed := true
	for changed {
		changed = false
		for i, h := range hyps {
			_ = h
			if len(hv[i]) < 2 {
				continue
			}
			touch := false
			for v := range hv[i] {
				if live[v] {
					touch = true
				}
			}
			if touch {
				for v := range hv[i] {
					if !live[v] {
						live[v] = true
						changed = true
					}
				}
			}
		}
	}
	var out []*smt.Term
	for i, h := range hyps {
		ok := true
		for v := range hv[i] {
			if !live[v] {
				ok = false
				break
			}
		}
		if ok {
			out = append(out, h)
		}
	}
	return out
}

func isAllocMap(a *smt.Term) bool {
	for a.Op == smt.OStore {
		a = a.Args[0]
	}
	return a.Op == smt.OVar && a.Name == "heap$$alloc"
}

func mentionsArrays(t *smt.Term) bool {
	seen := map[*smt.Term]bool{}
	var rec func(t *smt.Term) bool
	rec = func(t *smt.Term) bool {
		if seen[t] {
			return false
		}
		seen[t] = true
		if t.Op == smt.OSelect || t.Op == smt.OStore || t.Op == smt.OForall || t.Op == smt.OExists {
			return true
		}
		for _, a := range t.Args {
			if rec(a) {
				return true
			}
		}
		return false
	}
	return rec(t)
}

// batchDischarge returns the obligations that still need individual treatment.
func (e *Engine) batchDischarge(obs []*Obligation, opts DischargeOpts) []*Obligation {
	c := e.C
	groups := map[string][]*Obligation{}
	var order []string
	for _, ob := range obs {
		switch ob.Kind {
		case "ensures", "frame", "invariant-init", "invariant-preserve":
		default:
			continue
		}
		key := ob.Fn + "|" + ob.Kind[:3] + "|" + strings.Join(ob.Path, ",")
		if _, ok := groups[key]; !ok {
			order = append(order, key)
		}
		groups[key] = append(groups[key], ob)
	}
	type bjob struct {
		obs    []*Obligation
		script string
	}
	var jobs []*bjob
	for _, key := range order {
		g := groups[key]
		if len(g) < 3 {
			continue
		}
		// skip groups that contain store-chain goals (they need case splitting)
		hard := false
		var disj []*smt.Term
		var sk []*smt.Term
		var extra []*smt.Term
		var live []*smt.Term
		for _, ob := range g {
			var subs []subgoal
			e.splitGoal(ob.Goal, nil, &subs, &sk)
			for _, sg := range subs {
				if smt.Size(sg.goal) > 4000 {
					hard = true
				}
				disj = append(disj, c.And(append(append([]*smt.Term(nil), sg.hyps...), c.Not(sg.goal))...))
				extra = append(extra, sg.hyps...)
				extra = append(extra, sg.goal)
			}
			live = append(live, ob.LiveArrs...)
		}
		if hard || len(disj) == 0 {
			continue
		}
		neg := c.Or(disj...)
		var hy0 []*smt.Term
		seenH := map[*smt.Term]bool{}
		for _, h := range g[0].Hyps {
			var parts []*smt.Term
			e.splitHyp(h, &parts)
			for _, p := range parts {
				if !seenH[p] {
					seenH[p] = true
					hy0 = append(hy0, p)
				}
			}
		}
		hy0 = e.relevant(hy0, neg, extra, live)
		hy0, goal := e.propagate(hy0, c.Not(neg))
		hy := e.instantiate(hy0, goal, sk)
		asserts := append(append([]*smt.Term(nil), hy...), c.Not(goal))
		asserts = append(asserts, e.literalAxioms(asserts)...)
		asserts = append(asserts, e.sentinelAxioms(asserts)...)
		jobs = append(jobs, &bjob{obs: g, script: c.Script("ALL", asserts, nil, false)})
	}
	if len(jobs) == 0 {
		return obs
	}
	done := map[*Obligation]bool{}
	var mu sync.Mutex
	var wg sync.WaitGroup
	ch := make(chan *bjob)
	n := opts.Jobs
	if n <= 0 {
		n = 8
	}
	tmo := opts.TimeoutS
	if tmo <= 0 {
		tmo = 10
	}
	for w := 0; w < n; w++ {
		wg.Add(1)
		go func() {
			defer wg.Done()
			for j := range ch {
				r := smt.Solve(j.script, smt.DefaultSolvers(tmo), time.Duration(tmo)*time.Second, opts.NeedAgree)
				if r.Status == "unsat" {
					mu.Lock()
					for _, ob := range j.obs {
						ob.Status = "discharged"
						rr := r
						rr.Seconds = r.Seconds / float64(len(j.obs))
						rr.Solver = r.Solver + " (batched with the other obligations of the same path)"
						ob.Result = &rr
						done[ob] = true
					}
					mu.Unlock()
				}
			}
		}()
	}
	for _, j := range jobs {
		ch <- j
	}
	close(ch)
	wg.Wait()
	e.Stats["batched-groups"] += len(jobs)
	e.Stats["batched-discharged"] += len(done)
	var rest []*Obligation
	for _, ob := range obs {
		if !done[ob] {
			rest = append(rest, ob)
		}
	}
	return rest
}

type DischargeOpts struct {
	NoBatch   bool
	TimeoutS  int
	NeedAgree int
	Jobs      int
	DumpDir   string
	Models    bool
	Filter    func(*Obligation) bool
}

// instantiate replaces quantified hypotheses by ground instances. Candidates for a
// bound index i are (a) the skolem constants of the goal and (b) for every pattern
// select(A, base+i) / sbyte(s, base+i) in the body, every ground index g of a
// select/sbyte in the query, giving i := g - base. Dropping the quantified form
// keeps the query quantifier-free (a "sat" answer is then only a candidate
// counterexample); it is sound for proofs because instances are consequences.
func guardLimit() int {
	if v := os.Getenv("GVC_GUARD_LIMIT"); v != "" {
		n, _ := strconv.Atoi(v)
		return n
	}
	return 120
}

type appBase struct {
	key  string
	base *smt.Term
}

func (e *Engine) instantiate(hyps []*smt.Term, goal *smt.Term, skolems []*smt.Term) []*smt.Term {
	c := e.C
	var quants, ground []*smt.Term
	var qguards [][]*smt.Term // per entry of quants: the other (ground) disjuncts, nil if unguarded
	hypSet := map[*smt.Term]bool{}
	for _, h := range hyps {
		hypSet[h] = true
	}
	for _, h := range hyps {
		if h.Op == smt.OForall {
			quants = append(quants, h)
			qguards = append(qguards, nil)
		} else if gq, rest := e.guardedForall(h); gq != nil {
			// g1 or ... or (forall x. P)
			refuted := true
			for _, r := range rest {
				if !hypSet[c.Not(r)] {
					refuted = false
				}
			}
			switch {
			case refuted:
				// every guard is contradicted by a literal hypothesis: a plain universal fact
				quants = append(quants, gq)
				qguards = append(qguards, nil)
			case e.defImpl[h] || len(hyps) <= guardLimit():
				// definition of a revealed opaque spec function, or any guarded universal in a
				// small query: instances are g or P[t]; in small queries the quantified
				// hypothesis itself is kept as well (engine-side instantiation is incomplete)
				quants = append(quants, gq)
				qguards = append(qguards, rest)
				if len(hyps) <= guardLimit() {
					ground = append(ground, h)
				}
			default:
				// left to the solver's own quantifier handling
				ground = append(ground, h)
			}
		} else if h.Op == smt.OExists {
			// existential hypotheses: skolemise
			m := map[*smt.Term]*smt.Term{}
			for _, v := range h.BVars {
				m[v] = c.Fresh("ex$"+strings.SplitN(v.Name, "?", 2)[0], v.Sort)
			}
			ground = append(ground, c.Subst(h.Args[0], m))
		} else {
			ground = append(ground, h)
		}
	}
	if len(quants) == 0 {
		return ground
	}
	out := ground
	maxRounds := 3
	if os.Getenv("GVC_ROUNDS") != "" {
		fmt.Sscanf(os.Getenv("GVC_ROUNDS"), "%d", &maxRounds)
	}
	for round := 0; round < maxRounds; round++ {
		// ground index terms of the current query
		gidx := map[*smt.Term]bool{}
		gapp := map[string]map[*smt.Term]bool{}
		seen := map[*smt.Term]bool{}
		var rec func(t *smt.Term)
		rec = func(t *smt.Term) {
			if seen[t] {
				return
			}
			seen[t] = true
			if t.Op == smt.OForall || t.Op == smt.OExists {
				return
			}
			if t.Op == smt.OSelect && t.Args[1].Sort == smt.BV64 && t.Args[0].Sort.Elem.K != smt.KArr && !isAllocMap(t.Args[0]) {
				gidx[t.Args[1]] = true
			}
			if t.Op == smt.OApp && t.Name == "sbyte" {
				gidx[t.Args[1]] = true
			}
			if t.Op == smt.OApp && strings.HasPrefix(t.Name, "spec$") {
				// integer arguments of uninterpreted spec functions (specTok(h, key, i), ...):
				// candidates for quantifiers that apply the same function to their bound variable
				for pi, a := range t.Args {
					if a.Sort == smt.BV64 && !a.HasBound() && (a.Op == smt.OBvAdd || a.Op == smt.OConst || strings.HasPrefix(a.Name, "sk$") || strings.HasPrefix(a.Name, "wit$") || strings.HasPrefix(a.Name, "loop$")) {
						k := t.Name + "#" + strconv.Itoa(pi)
						if gapp[k] == nil {
							gapp[k] = map[*smt.Term]bool{}
						}
						gapp[k][a] = true
					}
				}
			}
			for _, a := range t.Args {
				rec(a)
			}
		}
		rec(goal)
		for _, h := range out {
			// ground hypotheses contribute their index terms only when small (branch
			// conditions on loaded values); instances from the previous round always do.
			if round > 0 || smallSize(h, 60) <= 60 {
				rec(h)
			}
		}
		var gl []*smt.Term
		for t := range gidx {
			gl = append(gl, t)
		}
		sort.Slice(gl, func(i, j int) bool { return gl[i].ID < gl[j].ID })
		added := map[*smt.Term]bool{}
		var inst []*smt.Term
		for qi, q := range quants {
			if len(q.BVars) != 1 || q.BVars[0].Sort != smt.BV64 {
				continue
			}
			bv := q.BVars[0]
			cands := map[*smt.Term]bool{}
			for _, s := range skolems {
				if s.Sort == smt.BV64 {
					cands[s] = true
				}
			}
			// patterns
			pseen := map[*smt.Term]bool{}
			var bases []*smt.Term
			var appKeys []string
			var appBases []appBase
			direct := false
			var prec func(t *smt.Term)
			prec = func(t *smt.Term) {
				if pseen[t] {
					return
				}
				pseen[t] = true
				var idx *smt.Term
				if t.Op == smt.OSelect && t.Args[1].Sort == smt.BV64 {
					idx = t.Args[1]
				}
				if t.Op == smt.OApp && t.Name == "sbyte" {
					idx = t.Args[1]
				}
				if t.Op == smt.OApp && strings.HasPrefix(t.Name, "spec$") {
					for pi, a := range t.Args {
						k := t.Name + "#" + strconv.Itoa(pi)
						if a == bv {
							appKeys = append(appKeys, k)
						} else if a.Op == smt.OBvAdd && len(a.Args) == 2 {
							// f(..., x + i, ...): candidates are g - x for ground arguments g
							if a.Args[0] == bv && !a.Args[1].HasBound() {
								appBases = append(appBases, appBase{k, a.Args[1]})
							} else if a.Args[1] == bv && !a.Args[0].HasBound() {
								appBases = append(appBases, appBase{k, a.Args[0]})
							}
						}
					}
				}
				if idx != nil {
					if idx == bv {
						direct = true
					} else if idx.Op == smt.OBvAdd {
						if idx.Args[0] == bv {
							bases = append(bases, idx.Args[1])
						} else if idx.Args[1] == bv {
							bases = append(bases, idx.Args[0])
						} else if idx.Args[0].Op == smt.OBvAdd && idx.Args[1].IsConst() {
							// (x + i) + k
							in := idx.Args[0]
							if in.Args[0] == bv {
								bases = append(bases, c.Add(in.Args[1], idx.Args[1]))
							} else if in.Args[1] == bv {
								bases = append(bases, c.Add(in.Args[0], idx.Args[1]))
							}
						}
					}
				}
				for _, a := range t.Args {
					prec(a)
				}
			}
			prec(q.Args[0])
			for _, k := range appKeys {
				for g := range gapp[k] {
					cands[g] = true
				}
			}
			for _, ab := range appBases {
				for g := range gapp[ab.key] {
					cands[c.Sub(g, ab.base)] = true
				}
			}
			for _, g := range gl {
				if direct {
					cands[g] = true
				}
				for _, b := range bases {
					cands[c.Sub(g, b)] = true
				}
			}
			var cl []*smt.Term
			guarded := qi < len(qguards) && qguards[qi] != nil
			for t := range cands {
				if guarded && len(gl) > 24 {
					// guarded quantifiers (callee postconditions of the form cond ==> forall ...) in
					// memory-heavy queries: only the goal's skolem constants and named witnesses
					keep := false
					for _, v := range smt.FreeVars(t) {
						if strings.HasPrefix(v.Name, "sk$") || strings.HasPrefix(v.Name, "wit$") {
							keep = true
						}
					}
					if !keep {
						continue
					}
				}
				cl = append(cl, t)
			}
			sort.Slice(cl, func(i, j int) bool { return cl[i].ID < cl[j].ID })
			if len(cl) > 160 {
				cl = cl[:160]
			}
			for _, t := range cl {
				in := c.Subst(q.Args[0], map[*smt.Term]*smt.Term{bv: t})
				if qi < len(qguards) && qguards[qi] != nil {
					in = c.Or(append(append([]*smt.Term(nil), qguards[qi]...), in)...)
				}
				if !in.IsTrue() && !added[in] {
					added[in] = true
					inst = append(inst, in)
				}
			}
		}
		n0 := len(out)
		newWit := false
		have := map[*smt.Term]bool{}
		for _, h := range out {
			have[h] = true
		}
		nsk := len(e.skMemo)
		for _, in := range inst {
			// instances may contain nested "not forall" (named witnesses) and conjunctions
			var parts []*smt.Term
			if e.hasQuant(in) {
				e.splitHyp(in, &parts)
			} else {
				parts = []*smt.Term{in}
			}
			for _, p := range parts {
				if have[p] {
					continue
				}
				have[p] = true
				if p.Op == smt.OForall {
					quants = append(quants, p)
					qguards = append(qguards, nil)
				} else {
					out = append(out, p)
				}
			}
		}
		if len(e.skMemo) > nsk {
			newWit = true // splitHyp named a witness: its index terms need another round
		}
		if os.Getenv("GVC_INST_STATS") != "" {
			ng := 0
			for _, g := range qguards {
				if g != nil {
					ng++
				}
			}
			fmt.Fprintf(os.Stderr, "INST round=%d quants=%d guarded=%d ground-idx=%d instances=%d hyps=%d\n", round, len(quants), ng, len(gl), len(inst), len(out))
		}
		if len(out) == n0 {
			break
		}
		if round >= 1 && !newWit {
			break
		}
	}
	return out
}

// unfoldDefs replaces revealed applications of opaque spec functions by their definitions
// in the goal and the hypotheses of an obligation (the definitional equalities are among
// the hypotheses). It fails if one application has two different definitions on the path.
func (e *Engine) unfoldDefs(ob *Obligation) bool {
	if len(e.DefEqs) == 0 || ob.unfolded {
		return true
	}
	ob.unfolded = true
	defs := map[*smt.Term]*smt.Term{}
	for _, h := range ob.Hyps {
		if td, ok := e.DefEqs[h]; ok {
			if d0, dup := defs[td[0]]; dup && d0 != td[1] && !smt.AlphaEq(d0, td[1]) {
				return false
			}
			defs[td[0]] = td[1]
		}
	}
	if len(defs) == 0 {
		return true
	}
	// the goal is unfolded (so that its structure can be split); the hypotheses keep the
	// applications and get the definitions as two implications each, which splitHyp and the
	// engine-side instantiation handle (guarded quantifier / named witness)
	sb := e.C.NewSubst(defs)
	var nh []*smt.Term
	for _, h := range ob.Hyps {
		if td, ok := e.DefEqs[h]; ok {
			i1, i2 := e.C.Implies(td[0], td[1]), e.C.Implies(e.C.Not(td[0]), e.C.Not(td[1]))
			e.defImpl[i1], e.defImpl[i2] = true, true
			nh = append(nh, i1, i2)
			continue
		}
		nh = append(nh, h)
	}
	ob.Hyps = nh
	ob.Goal = sb.Apply(ob.Goal)
	return true
}

// guardedForall recognises  g1 or ... or gn or (forall x. P)  (also written as an
// implication) with exactly one universally quantified disjunct and no free bound variables.
func (e *Engine) guardedForall(h *smt.Term) (*smt.Term, []*smt.Term) {
	if h.HasBound() {
		return nil, nil
	}
	var ds []*smt.Term
	switch h.Op {
	case smt.OOr:
		ds = h.Args
	case smt.OImplies:
		if h.Args[1].Op != smt.OForall {
			return nil, nil
		}
		return h.Args[1], []*smt.Term{e.C.Not(h.Args[0])}
	default:
		return nil, nil
	}
	var q *smt.Term
	var rest []*smt.Term
	for _, d := range ds {
		if d.Op == smt.OForall {
			if q != nil {
				return nil, nil
			}
			q = d
		} else {
			rest = append(rest, d)
		}
	}
	if q == nil || len(q.BVars) != 1 {
		return nil, nil
	}
	return q, rest
}

func (e *Engine) Discharge(obs []*Obligation, opts DischargeOpts) {
	if opts.Jobs <= 0 {
		opts.Jobs = 8
	}
	if opts.TimeoutS <= 0 {
		opts.TimeoutS = 10
	}
	if opts.NeedAgree <= 0 {
		opts.NeedAgree = 1
	}
	type job struct {
		ob     *Obligation
		script string
		nsub   int
		idx    int
	}
	// Batch pass: obligations raised at the same point of the same path (typically the
	// ensures clauses and frame conditions at one return) share their hypotheses; they
	// are first tried together in one query (hyps and not(g1 and ... and gn)). Only if
	// that is not answered unsat are they discharged one by one below.
	{
		var ok []*Obligation
		for _, ob := range obs {
			if !e.unfoldDefs(ob) {
				ob.Status = "undecided:opaque-redefined"
				ob.Result = &smt.Result{Status: "error", Solver: "engine", Output: "an opaque spec function application was revealed with two different definitions on this path (its inputs changed)"}
				continue
			}
			ok = append(ok, ob)
		}
		obs = ok
	}
	if !opts.NoBatch {
		obs = e.batchDischarge(obs, opts)
	}
	// scripts are built sequentially (the term context is not thread-safe)
	var jobs []*job
	scriptsOf := map[*Obligation][]string{}
	tBuild := time.Now()
	for _, ob := range obs {
		var subs []subgoal
		var sk []*smt.Term
		if !e.unfoldDefs(ob) {
			ob.Status = "undecided:opaque-redefined"
			ob.Result = &smt.Result{Status: "error", Solver: "engine", Output: "an opaque spec function application was revealed with two different definitions on this path (its inputs changed)"}
			continue
		}
		e.splitGoal(ob.Goal, nil, &subs, &sk)
		ob.Skolems = sk
		var cases []subgoal
		for _, sg := range subs {
			var hy0 []*smt.Term
			seenH := map[*smt.Term]bool{}
			for _, h := range append(append([]*smt.Term(nil), ob.Hyps...), sg.hyps...) {
				var parts []*smt.Term
				e.splitHyp(h, &parts)
				for _, p := range parts {
					if !seenH[p] {
						seenH[p] = true
						hy0 = append(hy0, p)
					}
				}
			}
			if os.Getenv("GVC_DEBUG") != "" && strings.Contains(ob.Name, os.Getenv("GVC_DEBUG")) {
				fmt.Fprintf(os.Stderr, "DEBUG %s #%d goal before: %s\n", ob.Name, ob.Ord, e.C.Show(sg.goal))
			}
			if w := os.Getenv("GVC_DEBUG_HYP"); w != "" && os.Getenv("GVC_DEBUG") != "" && strings.Contains(ob.Name, os.Getenv("GVC_DEBUG")) {
				for _, h := range hy0 {
					hit := false
					for _, v := range smt.FreeVars(h) {
						if strings.Contains(v.Name, w) {
							hit = true
						}
					}
					if hit {
						fmt.Fprintf(os.Stderr, "HYP-BEFORE %s #%d: %s\n", ob.Name, ob.Ord, e.C.Show(h))
					}
				}
			}
			hy0 = e.relevant(hy0, sg.goal, sg.hyps, ob.LiveArrs)
			hy0, sg.goal = e.propagate(hy0, sg.goal)
			if os.Getenv("GVC_DEBUG") != "" && strings.Contains(ob.Name, os.Getenv("GVC_DEBUG")) {
				fmt.Fprintf(os.Stderr, "DEBUG %s #%d goal after: %s\n", ob.Name, ob.Ord, e.C.Show(sg.goal))
			}
			cases = append(cases, e.caseSplit(hy0, sg.goal, sk)...)
		}
		for _, sg := range cases {
			var hy []*smt.Term
			if sg.arith && !mentionsArrays(sg.goal) {
				// pure arithmetic goal: memory facts cannot help
				for _, h := range sg.hyps {
					if !mentionsArrays(h) {
						hy = append(hy, h)
					}
				}
			} else {
				hy = e.instantiate(sg.hyps, sg.goal, sg.sk)
			}
			asserts := append([]*smt.Term(nil), hy...)
			asserts = append(asserts, e.C.Not(sg.goal))
			asserts = append(asserts, e.literalAxioms(asserts)...)
			asserts = append(asserts, e.sentinelAxioms(asserts)...)
			var vals []*smt.Term
			if opts.Models {
				for _, in := range ob.Inputs {
					asserts = append(asserts, e.C.Eq(e.C.Var("gvcin$"+in.Name, in.T.Sort), in.T))
				}
				// every stream byte the query talks about (rdin(r, idx)): value and index, so
				// that a replay driver can lay the bytes out relative to the smallest index
				{
					seenR := map[*smt.Term]bool{}
					n := 0
					var walk func(t *smt.Term)
					walk = func(t *smt.Term) {
						if seenR[t] || n >= 96 {
							return
						}
						seenR[t] = true
						if t.Op == smt.OApp && t.Name == "spec$rdin" && len(t.Args) == 2 && !t.HasBound() {
							asserts = append(asserts, e.C.Eq(e.C.Var(fmt.Sprintf("gvcrd$%d", n), t.Sort), t), e.C.Eq(e.C.Var(fmt.Sprintf("gvcrdidx$%d", n), smt.BV64), t.Args[1]))
							n++
						}
						for _, a := range t.Args {
							walk(a)
						}
					}
					for _, a := range asserts[:len(asserts):len(asserts)] {
						walk(a)
					}
				}
				vals = smt.FreeVars(asserts...)
				var keep []*smt.Term
				for _, v := range vals {
					if v.Sort.K == smt.KBV || v.Sort.K == smt.KBool {
						keep = append(keep, v)
					}
				}
				sort.SliceStable(keep, func(i, j int) bool {
					pi := strings.HasPrefix(keep[i].Name, "in$") || strings.HasPrefix(keep[i].Name, "gvcin$") || strings.HasPrefix(keep[i].Name, "gvcrd")
					pj := strings.HasPrefix(keep[j].Name, "in$") || strings.HasPrefix(keep[j].Name, "gvcin$") || strings.HasPrefix(keep[j].Name, "gvcrd")
					return pi && !pj
				})
				vals = keep
				if len(vals) > 400 {
					vals = vals[:400]
				}
			}
			sc := e.C.Script("ALL", asserts, vals, opts.Models)
			scriptsOf[ob] = append(scriptsOf[ob], sc)
		}
		if len(subs) == 0 {
			ob.Status = "discharged"
			ob.Result = &smt.Result{Status: "unsat", Solver: "simplifier"}
		}
	}
	e.Stats["build-scripts-ms"] += int(time.Since(tBuild).Milliseconds())
	for _, ob := range obs {
		for i, sc := range scriptsOf[ob] {
			jobs = append(jobs, &job{ob: ob, script: sc, nsub: len(scriptsOf[ob]), idx: i})
		}
	}
	var mu sync.Mutex
	var wg sync.WaitGroup
	ch := make(chan *job)
	results := map[*Obligation][]smt.Result{}
	for w := 0; w < opts.Jobs; w++ {
		wg.Add(1)
		go func() {
			defer wg.Done()
			for j := range ch {
				r := smt.Solve(j.script, smt.DefaultSolvers(opts.TimeoutS), time.Duration(opts.TimeoutS)*time.Second, opts.NeedAgree)
				if (r.Status != "unsat" || os.Getenv("GVC_DUMP_ALL") != "") && opts.DumpDir != "" {
					nm := strings.NewReplacer("/", "_", " ", "_", "*", "", "(", "", ")", "", ":", "_", "$", "_", "#", "_").Replace(j.ob.Name)
					smt.DumpScript(opts.DumpDir, fmt.Sprintf("%s.%d.%d", nm, j.ob.ID, j.idx), j.script)
				}
				mu.Lock()
				results[j.ob] = append(results[j.ob], r)
				if ms := int(r.Seconds * 1000); ms > e.Stats["max-query-ms"] {
					e.Stats["max-query-ms"] = ms
				}
				if os.Getenv("GVC_SLOW") != "" && r.Seconds > 2 {
					fmt.Fprintf(os.Stderr, "SLOW %.1fs %s sub %d/%d %s\n", r.Seconds, j.ob.Name, j.idx, j.nsub, r.Status)
				}
				mu.Unlock()
			}
		}()
	}
	for _, j := range jobs {
		ch <- j
	}
	close(ch)
	wg.Wait()
	for _, ob := range obs {
		rs := results[ob]
		if len(rs) == 0 {
			continue
		}
		agg := smt.Result{Status: "unsat", All: map[string]string{}}
		for _, r := range rs {
			agg.Seconds += r.Seconds
			if r.Status == "unsat" {
				if agg.Solver == "" {
					agg.Solver = r.Solver
				}
				continue
			}
			// worst status wins: sat > unknown/timeout/error
			if agg.Status == "unsat" || (r.Status == "sat" && agg.Status != "sat") {
				agg.Status, agg.Solver, agg.Output = r.Status, r.Solver, r.Output
			}
		}
		ob.Result = &agg
		if agg.Status == "unsat" {
			ob.Status = "discharged"
		} else if agg.Status == "sat" {
			ob.Status = "refuted"
		} else {
			ob.Status = "undecided:" + agg.Status
		}
	}
}

// Targets lists contracts that have a body to verify (not assumed, not inline-only).
func (e *Engine) Targets() []*FnContract {
	var out []*FnContract
	for _, fc := range e.Contracts {
		if fc.B.Assumed || fc.B.Inline {
			continue
		}
		if fc.Lemma || (fc.Fn != nil && len(fc.Fn.Blocks) > 0) {
			out = append(out, fc)
		}
	}
	sort.Slice(out, func(i, j int) bool { return out[i].Key < out[j].Key })
	return out
}

func HasTag(tags []string, t string) bool {
	for _, x := range tags {
		if x == t {
			return true
		}
	}
	return false
}

var _ = os.Stderr
var _ *ssa.Function

// CallsTagged reports whether fc's function calls (directly, or through callees that have
// no contract and are therefore inlined, up to a small depth) a function whose contract has
// a requires clause tagged with prop: the call-site obligations of that clause belong to
// the property and exist only if the caller is verified.
func (e *Engine) CallsTagged(fc *FnContract, prop string) bool {
	if fc.Fn == nil {
		return false
	}
	seen := map[*ssa.Function]bool{}
	var scan func(fn *ssa.Function, depth int) bool
	scan = func(fn *ssa.Function, depth int) bool {
		if fn == nil || seen[fn] || depth > 3 {
			return false
		}
		seen[fn] = true
		for _, b := range fn.Blocks {
			for _, in := range b.Instrs {
				ci, ok := in.(ssa.CallInstruction)
				if !ok {
					continue
				}
				cc := ci.Common()
				var key string
				var callee *ssa.Function
				if cc.IsInvoke() {
					key = e.objKey(cc.Method)
				} else if callee = cc.StaticCallee(); callee != nil {
					key = e.fnKey(callee)
				} else {
					continue
				}
				if c2 := e.Contracts[key]; c2 != nil {
					for _, rq := range c2.Requires {
						if HasTag(rq.C.Tags, prop) {
							return true
						}
					}
					if !c2.B.Inline {
						continue
					}
				}
				if callee != nil && len(callee.Blocks) > 0 && e.Contracts[key] == nil {
					if scan(callee, depth+1) {
						return true
					}
				}
			}
		}
		for _, af := range fn.AnonFuncs {
			if scan(af, depth+1) {
				return true
			}
		}
		return false
	}
	return scan(fc.Fn, 0)
}
