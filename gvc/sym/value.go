package sym

import (
	"fmt"
	"os"
	"runtime/debug"
	"go/types"
	"sort"
	"strings"

	"golang.org/x/tools/go/ssa"

	"gvc/smt"
)

// Value is an executor-level value:
//
//	*smt.Term  scalar (ints, bools, Str strings, refs: pointers/interfaces/chans/maps/funcs as BV64)
//	*SliceV    symbolic slice header
//	*StructV   struct value (record of values)
//	*TupleV    multiple results
//	*PtrV      executor-level pointer (cell, heap field, slice element)
//	*ClosureV  function value with bindings
//	*ArrV      fixed array with concrete indexing (cell contents)
//	*IfaceV    interface holding an executor-level value
type Value interface{}

type SliceV struct {
	Region, Off, Len, Cap *smt.Term
	Elem                  types.Type
	// Conc, if non-nil, is a concrete backing (executor-level array cell) used for
	// variadic argument packs such as fmt.Errorf's ...interface{}.
	Conc       *Cell
	ConcLo, ConcHi int
}

type StructV struct {
	T types.Type
	F []Value
}

type TupleV struct{ V []Value }

type ArrV struct {
	Elem  types.Type
	Elems []Value
}

type IfaceV struct {
	T types.Type
	V Value
}

type ClosureV struct {
	Fn   interface{} // *ssa.Function
	Bind []Value
	// Recv is set for bound method closures (x.m): receiver value
	Recv Value
}

type PtrKind int

const (
	PCell  PtrKind = iota // local variable cell (+ path into struct fields / array elems)
	PField                // field of a heap object: Obj + Key
	PElem                 // element of a symbolic slice: Region + Index
	PGlobal               // package-level variable
	PArrRegion            // whole array that lives in its own fresh region (make([]T, const) in SSA form): Reg
)

type PtrV struct {
	Kind PtrKind
	T    types.Type // pointee type
	Cell *Cell
	Path []int
	Obj  *smt.Term
	Key  string
	Reg  *smt.Term
	Idx  *smt.Term
}

type Cell struct {
	ID   int
	Name string
	T    types.Type
}

// State is the symbolic machine state along one path.
type State struct {
	Heap  map[string]*smt.Term // heap field key -> Array(Ref -> leaf)
	Mem   map[string]*smt.Term // element leaf key -> Array(Region -> Array(BV64 -> leaf))
	Cells map[*Cell]Value
	PC    []*smt.Term
	// IsBranch[i]: PC[i] is a branch decision (as opposed to an assumed fact)
	IsBranch []bool
	// Trace of branch decisions (source positions) for path description
	Trace []string
	// references / regions allocated on this path (for distinctness)
	Fresh []*smt.Term
	// per-frame, per-path data
	FD map[int]*frameData
	// >0 while evaluating inside old(...)
	OldDepth int
	// function-entry snapshot (for old)
	Pre *State
	// goals already checked (hence usable) on this path
	Known map[*smt.Term]bool
	// terms whose axiom instances have been added on this path
	Marked map[*smt.Term]bool
	// pure-evaluation nesting depth (no obligations are emitted when > 0)
	PureDepth int
	// environment epoch (advanced at every call) and, per channel term, the epoch at
	// which its closed flag was last refreshed
	// literal facts of the path condition (for cheap simplification of goals)
	Lits map[*smt.Term]*smt.Term
	Epoch   int
	Touched map[*smt.Term]int
	// when set, modifies items are recorded instead of applied
	ModCollect *modSet
	// call-trace ghost: per callee key, how often it was called on this path (symbolic after a
	// loop cut) and the arguments / results of the last call (gvcCalls / gvcCallArg / gvcCallRes)
	Calls map[string]*callRec
	// >0 while a callee's postcondition is evaluated: call-trace intrinsics are opaque there
	TraceOpaque int
	CallSeq     int
	// json.NewEncoder results -> the writer they were created on (executor-side model of Encode)
	EncW map[*smt.Term]Value
}

type callRec struct {
	Seq  int // position of the last call in the path's trace (1-based; 0 = unknown after a loop cut)
	N    *smt.Term
	Args []Value
	Res  []Value
}

func NewState() *State {
	return &State{Heap: map[string]*smt.Term{}, Mem: map[string]*smt.Term{}, Cells: map[*Cell]Value{}, FD: map[int]*frameData{}, Known: map[*smt.Term]bool{}, Marked: map[*smt.Term]bool{}, Touched: map[*smt.Term]int{}, Lits: map[*smt.Term]*smt.Term{}}
}

func (s *State) Clone() *State {
	n := &State{Heap: make(map[string]*smt.Term, len(s.Heap)), Mem: make(map[string]*smt.Term, len(s.Mem)), Cells: make(map[*Cell]Value, len(s.Cells)),
		OldDepth: s.OldDepth, Pre: s.Pre, PureDepth: s.PureDepth, TraceOpaque: s.TraceOpaque, CallSeq: s.CallSeq, EncW: s.EncW, ModCollect: s.ModCollect, Epoch: s.Epoch}
	n.Lits = make(map[*smt.Term]*smt.Term, len(s.Lits))
	for k, v := range s.Lits {
		n.Lits[k] = v
	}
	n.Touched = make(map[*smt.Term]int, len(s.Touched))
	for k, v := range s.Touched {
		n.Touched[k] = v
	}
	n.Fresh = append([]*smt.Term(nil), s.Fresh...)
	n.FD = make(map[int]*frameData, len(s.FD))
	for k, v := range s.FD {
		c := &frameData{Prev: v.Prev, Defers: append([]deferred(nil), v.Defers...), ActiveLoops: map[*ssa.BasicBlock]bool{}, Stops: append([]stopPoint(nil), v.Stops...)}
		for b := range v.ActiveLoops {
			c.ActiveLoops[b] = true
		}
		n.FD[k] = c
	}
	n.Known = make(map[*smt.Term]bool, len(s.Known))
	for k := range s.Known {
		n.Known[k] = true
	}
	n.Marked = make(map[*smt.Term]bool, len(s.Marked))
	for k := range s.Marked {
		n.Marked[k] = true
	}
	for k, v := range s.Heap {
		n.Heap[k] = v
	}
	for k, v := range s.Mem {
		n.Mem[k] = v
	}
	for k, v := range s.Cells {
		n.Cells[k] = v
	}
	if s.Calls != nil {
		n.Calls = make(map[string]*callRec, len(s.Calls))
		for k, v := range s.Calls {
			n.Calls[k] = v
		}
	}
	n.PC = append([]*smt.Term(nil), s.PC...)
	n.IsBranch = append([]bool(nil), s.IsBranch...)
	n.Trace = append([]string(nil), s.Trace...)
	return n
}

func (s *State) Assume(t *smt.Term) {
	if t.IsTrue() {
		return
	}
	if t.IsFalse() && os.Getenv("GVC_DEBUG_FALSE") != "" {
		fmt.Fprintf(os.Stderr, "ASSUME-FALSE at:\n%s\n", debug.Stack())
	}
	s.PC = append(s.PC, t)
	s.IsBranch = append(s.IsBranch, false)
	s.noteLit(t)
}

// noteLit records literal facts (atoms and negated atoms, also inside conjunctions).
func (s *State) noteLit(t *smt.Term) {
	switch t.Op {
	case smt.OAnd:
		for _, a := range t.Args {
			s.noteLit(a)
		}
	case smt.ONot:
		if a := t.Args[0]; a.Op != smt.OAnd && a.Op != smt.OOr && a.Op != smt.OImplies && a.Op != smt.OForall && a.Op != smt.OConst {
			s.Lits[a] = falseTerm
		}
	case smt.OOr, smt.OImplies, smt.OForall, smt.OExists, smt.OConst, smt.OIte:
	default:
		if t.Sort == smt.Bool {
			s.Lits[t] = trueTerm
		}
	}
}

var trueTerm, falseTerm *smt.Term

// Branch records a branch decision.
func (s *State) Branch(t *smt.Term) {
	if t.IsTrue() {
		return
	}
	s.PC = append(s.PC, t)
	s.IsBranch = append(s.IsBranch, true)
	s.noteLit(t)
}

// ---------- type helpers ----------

func under(t types.Type) types.Type { return t.Underlying() }

func isByteSliceElem(t types.Type) bool {
	b, ok := under(t).(*types.Basic)
	return ok && (b.Kind() == types.Uint8 || b.Kind() == types.Byte)
}

func intWidth(b *types.Basic) (w int, signed bool, ok bool) {
	switch b.Kind() {
	case types.Int8:
		return 8, true, true
	case types.Int16:
		return 16, true, true
	case types.Int32:
		return 32, true, true
	case types.Int64, types.Int, types.UntypedInt, types.UntypedRune:
		return 64, true, true
	case types.Uint8:
		return 8, false, true
	case types.Uint16:
		return 16, false, true
	case types.Uint32:
		return 32, false, true
	case types.Uint64, types.Uint, types.Uintptr:
		return 64, false, true
	}
	return 0, false, false
}

// scalarSort gives the SMT sort of a Go type represented by a single term, or nil.
func scalarSort(t types.Type) *smt.Sort {
	switch u := under(t).(type) {
	case *types.Basic:
		if w, _, ok := intWidth(u); ok {
			return smt.BV(w)
		}
		switch u.Kind() {
		case types.Bool, types.UntypedBool:
			return smt.Bool
		case types.String, types.UntypedString:
			return smt.Str
		case types.UnsafePointer, types.UntypedNil:
			return smt.BV64
		}
		return nil
	case *types.Pointer, *types.Interface, *types.Chan, *types.Map, *types.Signature:
		return smt.BV64
	}
	return nil
}

func isSigned(t types.Type) bool {
	if b, ok := under(t).(*types.Basic); ok {
		_, s, ok := intWidth(b)
		return ok && s
	}
	return false
}

func typeName(t types.Type) string {
	switch x := t.(type) {
	case *types.Named:
		o := x.Obj()
		if o.Pkg() != nil {
			return o.Pkg().Name() + "." + o.Name()
		}
		return o.Name()
	case *types.Pointer:
		return "*" + typeName(x.Elem())
	case *types.Alias:
		return typeName(types.Unalias(x))
	}
	s := types.TypeString(t, func(p *types.Package) string { return p.Name() })
	return s
}

// Leaf describes one scalar component of a flattened Go type.
type Leaf struct {
	Path string // "" for the value itself, ".f", ".#len", ...
	Sort *smt.Sort
	T    types.Type
}

// flatten lists the scalar leaves of a type. Arrays are not flattened: they are
// memory regions and are reported with Sort==nil and Path ending in ".#arr".
func flatten(t types.Type) []Leaf {
	if s := scalarSort(t); s != nil {
		return []Leaf{{"", s, t}}
	}
	switch u := under(t).(type) {
	case *types.Slice:
		return []Leaf{{".#reg", smt.BV64, nil}, {".#off", smt.BV64, nil}, {".#len", smt.BV64, nil}, {".#cap", smt.BV64, nil}}
	case *types.Struct:
		var out []Leaf
		for i := 0; i < u.NumFields(); i++ {
			f := u.Field(i)
			for _, l := range flatten(f.Type()) {
				out = append(out, Leaf{"." + f.Name() + l.Path, l.Sort, l.T})
			}
		}
		return out
	case *types.Array:
		return []Leaf{{".#arr", nil, t}}
	case *types.Basic:
		// floats, complex: opaque 64-bit
		return []Leaf{{"", smt.BV64, t}}
	}
	return []Leaf{{"", smt.BV64, t}}
}

func elemKey(t types.Type) string {
	if isByteSliceElem(t) {
		return "u8"
	}
	if s := scalarSort(t); s != nil {
		switch s.K {
		case smt.KBool:
			return "bool"
		case smt.KBV:
			if _, ok := under(t).(*types.Basic); ok {
				return fmt.Sprintf("bv%d", s.W)
			}
			return "ref:" + typeName(t)
		case smt.KUSort:
			return "str"
		}
	}
	return typeName(t)
}

func sortedKeys(m map[string]*smt.Term) []string {
	var ks []string
	for k := range m {
		ks = append(ks, k)
	}
	sort.Strings(ks)
	return ks
}

func shortPos(s string) string {
	if i := strings.LastIndex(s, "/"); i >= 0 {
		return s[i+1:]
	}
	return s
}
