// Package contract parses //@ contract blocks and rewrites clause expressions
// into plain Go that the verifier type-checks and symbolically executes.
package contract

import (
	"fmt"
	"go/ast"
	"go/format"
	"go/parser"
	"go/token"
	"regexp"
	"strconv"
	"strings"
)

type ClauseKind int

const (
	Requires ClauseKind = iota
	Ensures
	Invariant
	Decreases
	Modifies
	LoopModifies
	Input
)

func (k ClauseKind) String() string {
	return [...]string{"requires", "ensures", "invariant", "decreases", "modifies", "loop-modifies", "input"}[k]
}

type Clause struct {
	Kind  ClauseKind
	Label string
	Loop  int // 1-based loop ordinal for loop clauses
	Text  string
	File  string
	Line  int
	Tags  []string // property tags specific to this clause (default: block tags)
	// filled by the generator
	GenName string
	Vars    []string // names of the generated function's parameters
}

type Block struct {
	Kind    string // "func" | "lemma"
	Name    string // function name as written, e.g. (*Conn).writeFrame
	Params  string // lemma parameter list text
	Tags    []string
	Assumed bool   // contract is trusted, body not verified
	Pure    bool   // result is a function of the arguments only (uninterpreted + axioms)
	Inline  bool   // no contract: inline at call sites
	Nobody  bool   // external function without body available
	Clauses []*Clause
	File    string
	Line    int
	Notes   []string
	Opts    map[string]string
}

// expandMacros replaces $NAME (longest names first).
func expandMacros(s string, macros map[string]string) string {
	var names []string
	for k := range macros {
		names = append(names, k)
	}
	for i := 0; i < len(names); i++ {
		for j := i + 1; j < len(names); j++ {
			if len(names[j]) > len(names[i]) || (len(names[j]) == len(names[i]) && names[j] < names[i]) {
				names[i], names[j] = names[j], names[i]
			}
		}
	}
	for _, k := range names {
		s = strings.ReplaceAll(s, "$"+k, macros[k])
	}
	return s
}

var inputArrRe = regexp.MustCompile(`^([A-Za-z0-9_.]+)\[(\d+)\]$`)
var identI = regexp.MustCompile(`\bi\b`)
var labelRe = regexp.MustCompile(`^\[([A-Za-z0-9_.\-]+)\]\s*`)
var tagRe = regexp.MustCompile(`^\{([A-Za-z0-9 ,]+)\}\s*`)

// Parse extracts contract blocks from the text of a file. Lines of interest start
// with "//@". A line "//@   ..." (three or more blanks, or a tab) continues the
// previous clause.
func Parse(file, text string) ([]*Block, error) {
	var blocks []*Block
	var cur *Block
	var last *Clause
	macros := map[string]string{}
	lines := strings.Split(text, "\n")
	for i, raw := range lines {
		ln := strings.TrimSpace(raw)
		if !strings.HasPrefix(ln, "//@") {
			continue
		}
		body := ln[3:]
		if strings.HasPrefix(body, "   ") || strings.HasPrefix(body, "\t") {
			if last == nil {
				return nil, fmt.Errorf("%s:%d: continuation without clause", file, i+1)
			}
			last.Text += " " + strings.TrimSpace(body)
			continue
		}
		body = strings.TrimSpace(body)
		if body == "" {
			continue
		}
		word, rest := body, ""
		if j := strings.IndexAny(body, " \t"); j >= 0 {
			word, rest = body[:j], strings.TrimSpace(body[j+1:])
		}
		// $NAME macros (textual)
		if word != "define" && strings.Contains(rest, "$") {
			rest = expandMacros(rest, macros)
		}
		switch word {
		case "define":
			kv := strings.SplitN(rest, " ", 2)
			if len(kv) == 2 {
				macros[kv[0]] = expandMacros(strings.TrimSpace(kv[1]), macros)
			}
			last = nil
			continue
		case "func":
			cur = &Block{Kind: "func", Name: rest, File: file, Line: i + 1, Opts: map[string]string{}}
			blocks = append(blocks, cur)
			last = nil
			continue
		case "noeffect":
			// "noeffect <method name> <reason>": calls of a result-less interface method of that
			// name for which no contract exists are assumed to have no effect on the verified state
			f := strings.SplitN(rest, " ", 2)
			nb := &Block{Kind: "noeffect", Name: f[0], File: file, Line: i + 1, Opts: map[string]string{}}
			if len(f) > 1 {
				nb.Notes = append(nb.Notes, f[1])
			}
			blocks = append(blocks, nb)
			cur = nil
			last = nil
			continue
		case "guard":
			// "guard <Struct.chanField> <Struct.muField> <property tags...>": a send on that channel
			// field of an object requires that this goroutine holds the *mu in that field of the
			// same object (an obligation at every such send)
			f := strings.Fields(rest)
			if len(f) < 2 {
				return nil, fmt.Errorf("%s:%d: guard needs a channel field and a mutex field", file, i+1)
			}
			nb := &Block{Kind: "guard", Name: f[0], File: file, Line: i + 1, Opts: map[string]string{"mu": f[1]}, Tags: f[2:]}
			blocks = append(blocks, nb)
			cur = nil
			last = nil
			continue
		case "lemma":
			j := strings.Index(rest, "(")
			if j < 0 || !strings.HasSuffix(rest, ")") {
				return nil, fmt.Errorf("%s:%d: lemma needs a parameter list", file, i+1)
			}
			cur = &Block{Kind: "lemma", Name: strings.TrimSpace(rest[:j]), Params: rest[j+1 : len(rest)-1], File: file, Line: i + 1, Opts: map[string]string{}}
			blocks = append(blocks, cur)
			last = nil
			continue
		}
		if cur == nil {
			return nil, fmt.Errorf("%s:%d: clause outside a block", file, i+1)
		}
		mk := func(k ClauseKind, loop int, text string) {
			c := &Clause{Kind: k, Loop: loop, File: file, Line: i + 1}
			if m := labelRe.FindStringSubmatch(text); m != nil {
				c.Label = m[1]
				text = text[len(m[0]):]
			}
			if m := tagRe.FindStringSubmatch(text); m != nil {
				c.Tags = strings.Fields(strings.ReplaceAll(m[1], ",", " "))
				text = text[len(m[0]):]
			}
			c.Text = text
			cur.Clauses = append(cur.Clauses, c)
			last = c
		}
		switch word {
		case "tags":
			cur.Tags = append(cur.Tags, strings.Fields(strings.ReplaceAll(rest, ",", " "))...)
		case "assumed":
			cur.Assumed = true
			if rest != "" {
				cur.Notes = append(cur.Notes, rest)
			}
		case "pure":
			cur.Pure = true
		case "inline":
			cur.Inline = true
		case "note":
			cur.Notes = append(cur.Notes, rest)
		case "opt":
			kv := strings.SplitN(rest, "=", 2)
			if len(kv) == 2 {
				cur.Opts[strings.TrimSpace(kv[0])] = strings.TrimSpace(kv[1])
			} else {
				cur.Opts[rest] = "true"
			}
		case "requires":
			mk(Requires, 0, rest)
		case "ensures":
			mk(Ensures, 0, rest)
		case "modifies":
			mk(Modifies, 0, rest)
		case "input":
			// replay input: "input name expr" or "input name[K] expr-over-i" (K copies, i = 0..K-1)
			kv := strings.SplitN(rest, " ", 2)
			if len(kv) != 2 {
				return nil, fmt.Errorf("%s:%d: malformed input directive", file, i+1)
			}
			if m := inputArrRe.FindStringSubmatch(kv[0]); m != nil {
				k, _ := strconv.Atoi(m[2])
				for j := 0; j < k; j++ {
					mk(Input, 0, "["+m[1]+"."+strconv.Itoa(j)+"] "+identI.ReplaceAllString(kv[1], strconv.Itoa(j)))
				}
			} else {
				mk(Input, 0, "["+kv[0]+"] "+kv[1])
			}
		case "loop":
			f := strings.SplitN(rest, " ", 3)
			if len(f) < 3 {
				return nil, fmt.Errorf("%s:%d: malformed loop clause", file, i+1)
			}
			n, err := strconv.Atoi(f[0])
			if err != nil || n < 1 {
				return nil, fmt.Errorf("%s:%d: bad loop ordinal", file, i+1)
			}
			switch f[1] {
			case "invariant":
				mk(Invariant, n, strings.TrimSpace(f[2]))
			case "decreases":
				mk(Decreases, n, strings.TrimSpace(f[2]))
			case "modifies":
				mk(LoopModifies, n, strings.TrimSpace(f[2]))
			default:
				return nil, fmt.Errorf("%s:%d: unknown loop clause %q", file, i+1, f[1])
			}
		default:
			return nil, fmt.Errorf("%s:%d: unknown directive %q", file, i+1, word)
		}
	}
	// default labels
	for _, b := range blocks {
		cnt := map[string]int{}
		for _, c := range b.Clauses {
			if c.Label == "" {
				key := c.Kind.String()
				if c.Loop > 0 {
					key = fmt.Sprintf("loop%d-%s", c.Loop, key)
				}
				cnt[key]++
				c.Label = fmt.Sprintf("%s#%d", key, cnt[key])
			}
		}
	}
	return blocks, nil
}

// ---------- "==>" rewriting ----------

// splitTop splits s at top-level occurrences of sep (depth 0 w.r.t. ()[]{} and outside strings).
func splitTop(s, sep string) []string {
	var out []string
	depth := 0
	start := 0
	i := 0
	for i < len(s) {
		ch := s[i]
		switch ch {
		case '"':
			j := i + 1
			for j < len(s) && s[j] != '"' {
				if s[j] == '\\' {
					j++
				}
				j++
			}
			i = j + 1
			continue
		case '`':
			j := i + 1
			for j < len(s) && s[j] != '`' {
				j++
			}
			i = j + 1
			continue
		case '\'':
			j := i + 1
			for j < len(s) && s[j] != '\'' {
				if s[j] == '\\' {
					j++
				}
				j++
			}
			i = j + 1
			continue
		case '(', '[', '{':
			depth++
		case ')', ']', '}':
			depth--
		}
		if depth == 0 && strings.HasPrefix(s[i:], sep) {
			out = append(out, s[start:i])
			i += len(sep)
			start = i
			continue
		}
		i++
	}
	out = append(out, s[start:])
	return out
}

// xfGroups rewrites the inside of each top-level bracket group of seg.
func xfGroups(seg string) string {
	var sb strings.Builder
	i := 0
	for i < len(seg) {
		ch := seg[i]
		if ch == '"' || ch == '`' || ch == '\'' {
			j := i + 1
			for j < len(seg) && seg[j] != ch {
				if seg[j] == '\\' && ch != '`' {
					j++
				}
				j++
			}
			if j >= len(seg) {
				j = len(seg) - 1
			}
			sb.WriteString(seg[i : j+1])
			i = j + 1
			continue
		}
		if ch == '(' || ch == '[' || ch == '{' {
			depth := 0
			j := i
			for j < len(seg) {
				c := seg[j]
				if c == '"' || c == '`' || c == '\'' {
					k := j + 1
					for k < len(seg) && seg[k] != c {
						if seg[k] == '\\' && c != '`' {
							k++
						}
						k++
					}
					j = k + 1
					continue
				}
				if c == '(' || c == '[' || c == '{' {
					depth++
				}
				if c == ')' || c == ']' || c == '}' {
					depth--
					if depth == 0 {
						break
					}
				}
				j++
			}
			if j >= len(seg) {
				sb.WriteString(seg[i:])
				break
			}
			sb.WriteByte(ch)
			sb.WriteString(ImpRewrite(seg[i+1 : j]))
			sb.WriteByte(seg[j])
			i = j + 1
			continue
		}
		sb.WriteByte(ch)
		i++
	}
	return sb.String()
}

// ImpRewrite rewrites "A ==> B" (lowest precedence, right associative) into Go.
func ImpRewrite(s string) string {
	parts := splitTop(s, ",")
	for i, p := range parts {
		parts[i] = impOne(p)
	}
	return strings.Join(parts, ",")
}

func impOne(p string) string {
	prefix := ""
	tp := strings.TrimLeft(p, " \t")
	if strings.HasPrefix(tp, "return ") {
		prefix = "return "
		p = tp[len("return "):]
	}
	segs := splitTop(p, "==>")
	for i := range segs {
		segs[i] = xfGroups(segs[i])
	}
	res := segs[len(segs)-1]
	for i := len(segs) - 2; i >= 0; i-- {
		res = "!(" + segs[i] + ") || (" + res + ")"
	}
	return prefix + res
}

// RewriteExpr turns clause text into a Go expression string: "==>" is expanded,
// old(e) becomes oldEnd(oldBegin(), e') with parameter names inside e' renamed to
// name__old. params lists the names that have an entry value.
func RewriteExpr(text string, params map[string]bool) (string, []string, error) {
	src := ImpRewrite(text)
	e, err := parser.ParseExpr(src)
	if err != nil {
		return "", nil, fmt.Errorf("cannot parse %q: %v", src, err)
	}
	usedOld := map[string]bool{}
	var rewrite func(n ast.Node, inOld bool) ast.Node
	var walkExpr func(e ast.Expr, inOld bool) ast.Expr
	walkExpr = func(e ast.Expr, inOld bool) ast.Expr {
		if e == nil {
			return nil
		}
		return rewrite(e, inOld).(ast.Expr)
	}
	rewrite = func(n ast.Node, inOld bool) ast.Node {
		switch x := n.(type) {
		case *ast.Ident:
			if inOld && params[x.Name] {
				usedOld[x.Name] = true
				return &ast.Ident{Name: x.Name + "__old"}
			}
			return x
		case *ast.CallExpr:
			if id, ok := x.Fun.(*ast.Ident); ok && id.Name == "old" && len(x.Args) == 1 {
				inner := walkExpr(x.Args[0], true)
				return &ast.CallExpr{Fun: &ast.Ident{Name: "oldEnd"}, Args: []ast.Expr{
					&ast.CallExpr{Fun: &ast.Ident{Name: "oldBegin"}}, inner}}
			}
			x.Fun = walkExpr(x.Fun, inOld)
			for i := range x.Args {
				x.Args[i] = walkExpr(x.Args[i], inOld)
			}
			return x
		case *ast.BinaryExpr:
			x.X = walkExpr(x.X, inOld)
			x.Y = walkExpr(x.Y, inOld)
			return x
		case *ast.UnaryExpr:
			x.X = walkExpr(x.X, inOld)
			return x
		case *ast.ParenExpr:
			x.X = walkExpr(x.X, inOld)
			return x
		case *ast.SelectorExpr:
			x.X = walkExpr(x.X, inOld)
			return x
		case *ast.IndexExpr:
			x.X = walkExpr(x.X, inOld)
			x.Index = walkExpr(x.Index, inOld)
			return x
		case *ast.SliceExpr:
			x.X = walkExpr(x.X, inOld)
			x.Low = walkExpr(x.Low, inOld)
			x.High = walkExpr(x.High, inOld)
			x.Max = walkExpr(x.Max, inOld)
			return x
		case *ast.StarExpr:
			x.X = walkExpr(x.X, inOld)
			return x
		case *ast.TypeAssertExpr:
			x.X = walkExpr(x.X, inOld)
			return x
		case *ast.CompositeLit:
			for i := range x.Elts {
				x.Elts[i] = walkExpr(x.Elts[i], inOld)
			}
			return x
		case *ast.KeyValueExpr:
			x.Value = walkExpr(x.Value, inOld)
			return x
		case *ast.FuncLit:
			for _, st := range x.Body.List {
				if r, ok := st.(*ast.ReturnStmt); ok {
					for i := range r.Results {
						r.Results[i] = walkExpr(r.Results[i], inOld)
					}
				}
			}
			return x
		case *ast.BasicLit, *ast.ArrayType, *ast.MapType, *ast.FuncType, *ast.InterfaceType, *ast.StructType, *ast.ChanType:
			return x
		}
		return n
	}
	e = walkExpr(e, false)
	var sb strings.Builder
	if err := format.Node(&sb, token.NewFileSet(), e); err != nil {
		return "", nil, err
	}
	var olds []string
	for k := range usedOld {
		olds = append(olds, k)
	}
	return sb.String(), olds, nil
}

// Idents returns the free-looking identifiers of a Go expression string.
func Idents(src string) map[string]bool {
	out := map[string]bool{}
	e, err := parser.ParseExpr(src)
	if err != nil {
		return out
	}
	ast.Inspect(e, func(n ast.Node) bool {
		switch x := n.(type) {
		case *ast.SelectorExpr:
			// only the root can be a variable
			ast.Inspect(x.X, func(m ast.Node) bool {
				if id, ok := m.(*ast.Ident); ok {
					out[id.Name] = true
				}
				return true
			})
			return false
		case *ast.KeyValueExpr:
			ast.Inspect(x.Value, func(m ast.Node) bool {
				if id, ok := m.(*ast.Ident); ok {
					out[id.Name] = true
				}
				return true
			})
			return false
		case *ast.Ident:
			out[x.Name] = true
		}
		return true
	})
	return out
}

// ModItem is one entry of a modifies clause.
type ModItem struct {
	Kind string // field | all | bytes | map
	Expr string
}

func ParseModifies(text string) ([]ModItem, error) {
	var out []ModItem
	for _, it := range splitTop(text, ",") {
		it = strings.TrimSpace(it)
		if it == "" || it == "nothing" {
			continue
		}
		switch {
		case strings.HasPrefix(it, "bytes(") && strings.HasSuffix(it, ")"):
			out = append(out, ModItem{"bytes", it[6 : len(it)-1]})
		case strings.HasPrefix(it, "elems(") && strings.HasSuffix(it, ")"):
			out = append(out, ModItem{"bytes", it[6 : len(it)-1]})
		case strings.HasPrefix(it, "chanstate(") && strings.HasSuffix(it, ")"):
			out = append(out, ModItem{"chan", it[10 : len(it)-1]})
		case strings.HasPrefix(it, "mapof(") && strings.HasSuffix(it, ")"):
			out = append(out, ModItem{"map", it[6 : len(it)-1]})
		case strings.HasPrefix(it, "footprint(") && strings.HasSuffix(it, ")"):
			// footprint(f(x)): f is a spec-side Go function whose body lists locations with gvcMod* calls
			out = append(out, ModItem{"call", it[10 : len(it)-1]})
		case strings.HasSuffix(it, ".*"):
			out = append(out, ModItem{"all", it[:len(it)-2]})
		default:
			out = append(out, ModItem{"field", it})
		}
	}
	return out, nil
}
