package smt

import (
	"bytes"
	"context"
	"fmt"
	"os"
	"os/exec"
	"strings"
	"sync"
	"syscall"
	"time"
)

type Result struct {
	Status  string // unsat | sat | unknown | timeout | error
	Solver  string
	Seconds float64
	Output  string // raw output of the winning solver (model on sat)
	All     map[string]string
}

type SolverSpec struct {
	Name string
	Cmd  []string
}

func DefaultSolvers(timeoutSec int) []SolverSpec {
	ms := fmt.Sprintf("%d", timeoutSec*1000)
	return []SolverSpec{
		{"z3-5.1.0", []string{"z3-new", "-smt2", "-in", "-t:" + ms}},
		{"z3-4.8.12", []string{"z3", "-smt2", "-in", "-t:" + ms}},
		{"cvc5-1.0.3", []string{"cvc5", "--lang=smt2", "--tlimit=" + ms}},
	}
}

// Solve races the solvers on the script; the first definite answer (sat/unsat) wins.
// If needAgree > 1, that many distinct solvers must return the same definite answer.
// Staged enables the two-stage strategy (off: measured slower on this workload).
var Staged = false

func Solve(script string, solvers []SolverSpec, timeout time.Duration, needAgree int) Result {
	if Staged && needAgree <= 1 && len(solvers) > 1 && timeout > 3*time.Second {
		// stage 1: the usually-fastest solver alone for a short time (saves two processes
		// per query); stage 2: race everything.
		r := solveRace(script, solvers[:1], 2*time.Second, 1)
		if r.Status == "sat" || r.Status == "unsat" {
			return r
		}
		r2 := solveRace(script, solvers, timeout, needAgree)
		r2.Seconds += r.Seconds
		return r2
	}
	return solveRace(script, solvers, timeout, needAgree)
}

func solveRace(script string, solvers []SolverSpec, timeout time.Duration, needAgree int) Result {
	ctx, cancel := context.WithTimeout(context.Background(), timeout+2*time.Second)
	defer cancel()
	type one struct {
		name, status, out string
		secs         float64
	}
	ch := make(chan one, len(solvers))
	var wg sync.WaitGroup
	start := time.Now()
	for _, s := range solvers {
		wg.Add(1)
		go func(s SolverSpec) {
			defer wg.Done()
			t0 := time.Now()
			cmd := exec.CommandContext(ctx, s.Cmd[0], s.Cmd[1:]...)
			cmd.SysProcAttr = &syscall.SysProcAttr{Setpgid: true}
			cmd.Cancel = func() error { return syscall.Kill(-cmd.Process.Pid, syscall.SIGKILL) }
			cmd.Stdin = strings.NewReader(script)
			var out bytes.Buffer
			cmd.Stdout = &out
			cmd.Stderr = &out
			_ = cmd.Run()
			o := out.String()
			first := strings.TrimSpace(strings.SplitN(o, "\n", 2)[0])
			st := "unknown"
			switch {
			case first == "unsat":
				st = "unsat"
			case first == "sat":
				st = "sat"
			case first == "unknown" || first == "timeout":
				st = "unknown"
			case ctx.Err() != nil:
				st = "timeout"
			case strings.Contains(o, "error") || first == "":
				st = "error"
			}
			ch <- one{s.Name, st, o, time.Since(t0).Seconds()}
		}(s)
	}
	go func() { wg.Wait(); close(ch) }()
	res := Result{Status: "unknown", All: map[string]string{}}
	agree := map[string][]one{}
	var lastErr string
	for r := range ch {
		res.All[r.name] = r.status
		if r.status == "sat" || r.status == "unsat" {
			agree[r.status] = append(agree[r.status], r)
			if len(agree[r.status]) >= needAgree {
				cancel()
				w := agree[r.status][0]
				res.Status, res.Solver, res.Output = w.status, w.name, w.out
				if needAgree > 1 {
					var ns []string
					for _, x := range agree[r.status] {
						ns = append(ns, x.name)
					}
					res.Solver = strings.Join(ns, "+")
				}
				res.Seconds = time.Since(start).Seconds()
				// drain
				go func() {
					for range ch {
					}
				}()
				return res
			}
		}
		if r.status == "error" {
			lastErr = r.name + ": " + firstLines(r.out, 3)
		}
	}
	res.Seconds = time.Since(start).Seconds()
	if len(agree["sat"]) > 0 && len(agree["unsat"]) > 0 {
		res.Status = "error"
		res.Output = "solvers disagree"
		return res
	}
	// a single definite answer but not enough agreement: report it but mark solver
	for _, st := range []string{"unsat", "sat"} {
		if len(agree[st]) > 0 {
			res.Status = st + "-unconfirmed"
			res.Solver = agree[st][0].name
			res.Output = agree[st][0].out
			return res
		}
	}
	allErr := true
	for _, s := range res.All {
		if s != "error" {
			allErr = false
		}
	}
	if allErr && lastErr != "" {
		res.Status = "error"
		res.Output = lastErr
	} else if time.Since(start) >= timeout {
		res.Status = "timeout"
	}
	return res
}

func firstLines(s string, n int) string {
	ls := strings.Split(s, "\n")
	if len(ls) > n {
		ls = ls[:n]
	}
	return strings.Join(ls, " / ")
}

func DumpScript(dir, name, script string) string {
	_ = os.MkdirAll(dir, 0o755)
	p := dir + "/" + name + ".smt2"
	_ = os.WriteFile(p, []byte(script), 0o644)
	return p
}
