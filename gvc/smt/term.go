// Package smt: hash-consed SMT terms (bitvectors, booleans, arrays,
// uninterpreted sorts/functions), a small simplifier, and an SMT-LIB2 printer.
package smt

import (
	"fmt"
	"math/bits"
	"sort"
	"strconv"
	"strings"
)

type Kind int

const (
	KBool Kind = iota
	KBV
	KArr
	KUSort
)

type Sort struct {
	K    Kind
	W    int
	Idx  *Sort
	Elem *Sort
	Name string
	str  string
}

var sortTab = map[string]*Sort{}

func mkSort(s Sort) *Sort {
	switch s.K {
	case KBool:
		s.str = "Bool"
	case KBV:
		s.str = fmt.Sprintf("(_ BitVec %d)", s.W)
	case KArr:
		s.str = "(Array " + s.Idx.str + " " + s.Elem.str + ")"
	case KUSort:
		s.str = s.Name
	}
	if p, ok := sortTab[s.str]; ok {
		return p
	}
	p := &s
	sortTab[s.str] = p
	return p
}

var Bool = mkSort(Sort{K: KBool})

func BV(w int) *Sort           { return mkSort(Sort{K: KBV, W: w}) }
func Arr(i, e *Sort) *Sort     { return mkSort(Sort{K: KArr, Idx: i, Elem: e}) }
func USort(name string) *Sort  { return mkSort(Sort{K: KUSort, Name: name}) }
func (s *Sort) String() string { return s.str }

var (
	BV8  = BV(8)
	BV16 = BV(16)
	BV32 = BV(32)
	BV64 = BV(64)
	Str  = USort("Str")
)

type Op int

const (
	OConst Op = iota // BV or Bool constant (Val)
	OVar             // free constant symbol (Name)
	OBound           // bound variable (Name)
	OApp             // uninterpreted function application (Name)
	ONot
	OAnd
	OOr
	OImplies
	OEq
	OIte
	OBvAdd
	OBvSub
	OBvMul
	OBvUDiv
	OBvURem
	OBvSDiv
	OBvSRem
	OBvAnd
	OBvOr
	OBvXor
	OBvNot
	OBvNeg
	OBvShl
	OBvLshr
	OBvAshr
	OBvUlt
	OBvUle
	OBvSlt
	OBvSle
	OConcat
	OExtract // Val = hi<<8|lo
	OZext    // to Sort.W
	OSext
	OSelect
	OStore
	OForall // Args[0]=body, Bound vars in BVars
	OExists
)

var opNames = map[Op]string{
	ONot: "not", OAnd: "and", OOr: "or", OImplies: "=>", OEq: "=", OIte: "ite",
	OBvAdd: "bvadd", OBvSub: "bvsub", OBvMul: "bvmul", OBvUDiv: "bvudiv", OBvURem: "bvurem",
	OBvSDiv: "bvsdiv", OBvSRem: "bvsrem", OBvAnd: "bvand", OBvOr: "bvor", OBvXor: "bvxor",
	OBvNot: "bvnot", OBvNeg: "bvneg", OBvShl: "bvshl", OBvLshr: "bvlshr", OBvAshr: "bvashr",
	OBvUlt: "bvult", OBvUle: "bvule", OBvSlt: "bvslt", OBvSle: "bvsle", OConcat: "concat",
	OSelect: "select", OStore: "store",
}

type Term struct {
	Op    Op
	Sort  *Sort
	Args  []*Term
	Name  string
	Val   uint64
	BVars []*Term
	ID    int
	// hasBound: term mentions a bound variable (cannot be hoisted into a define-fun)
	hasBound bool
}

// Ctx owns the hash-cons table and symbol declarations.
type Ctx struct {
	tab    map[string]*Term
	nextID int
	Funs   map[string]*FunDecl
	fresh  map[string]int
	USorts map[string]bool
	// DistinctHook lets the client add syntactic distinctness knowledge.
	DistinctHook func(a, b *Term) bool
}

type FunDecl struct {
	Name string
	Args []*Sort
	Ret  *Sort
}

func NewCtx() *Ctx {
	return &Ctx{tab: map[string]*Term{}, Funs: map[string]*FunDecl{}, fresh: map[string]int{}, USorts: map[string]bool{}}
}

func (c *Ctx) intern(t *Term) *Term {
	buf := make([]byte, 0, 64)
	buf = strconv.AppendInt(buf, int64(t.Op), 10)
	buf = append(buf, '|')
	buf = append(buf, t.Sort.str...)
	buf = append(buf, '|')
	buf = append(buf, t.Name...)
	buf = append(buf, '|')
	buf = strconv.AppendUint(buf, t.Val, 16)
	buf = append(buf, '|')
	for _, a := range t.Args {
		buf = strconv.AppendInt(buf, int64(a.ID), 36)
		buf = append(buf, ',')
	}
	for _, a := range t.BVars {
		buf = append(buf, 'b')
		buf = strconv.AppendInt(buf, int64(a.ID), 36)
		buf = append(buf, ',')
	}
	k := string(buf)
	if p, ok := c.tab[k]; ok {
		return p
	}
	c.nextID++
	t.ID = c.nextID
	for _, a := range t.Args {
		if a.hasBound {
			t.hasBound = true
		}
	}
	if t.Op == OBound {
		t.hasBound = true
	}
	if t.Op == OForall || t.Op == OExists {
		// bound-ness is approximated: a quantified term is closed only if its body
		// mentions no bound variables other than its own.
		t.hasBound = hasOtherBound(t.Args[0], t.BVars)
	}
	c.tab[k] = t
	return t
}

func hasOtherBound(t *Term, own []*Term) bool {
	if !t.hasBound {
		return false
	}
	seen := map[*Term]bool{}
	var rec func(t *Term, own []*Term) bool
	rec = func(t *Term, own []*Term) bool {
		if !t.hasBound || seen[t] {
			return false
		}
		seen[t] = true
		if t.Op == OBound {
			for _, o := range own {
				if o == t {
					return false
				}
			}
			return true
		}
		if t.Op == OForall || t.Op == OExists {
			return rec(t.Args[0], append(append([]*Term{}, own...), t.BVars...))
		}
		for _, a := range t.Args {
			if rec(a, own) {
				return true
			}
		}
		return false
	}
	return rec(t, own)
}

func (c *Ctx) mk(op Op, s *Sort, args ...*Term) *Term {
	return c.intern(&Term{Op: op, Sort: s, Args: args})
}

func mask(w int) uint64 {
	if w >= 64 {
		return ^uint64(0)
	}
	return (uint64(1) << uint(w)) - 1
}

func (c *Ctx) True() *Term  { return c.intern(&Term{Op: OConst, Sort: Bool, Val: 1}) }
func (c *Ctx) False() *Term { return c.intern(&Term{Op: OConst, Sort: Bool, Val: 0}) }
func (c *Ctx) BoolC(b bool) *Term {
	if b {
		return c.True()
	}
	return c.False()
}
func (c *Ctx) BVC(w int, v uint64) *Term {
	return c.intern(&Term{Op: OConst, Sort: BV(w), Val: v & mask(w)})
}
func (c *Ctx) Var(name string, s *Sort) *Term {
	if s.K == KUSort {
		c.USorts[s.Name] = true
	}
	c.noteSort(s)
	return c.intern(&Term{Op: OVar, Sort: s, Name: name})
}
func (c *Ctx) noteSort(s *Sort) {
	switch s.K {
	case KUSort:
		c.USorts[s.Name] = true
	case KArr:
		c.noteSort(s.Idx)
		c.noteSort(s.Elem)
	}
}
func (c *Ctx) Fresh(prefix string, s *Sort) *Term {
	c.fresh[prefix]++
	return c.Var(fmt.Sprintf("%s!%d", prefix, c.fresh[prefix]), s)
}
func (c *Ctx) Bound(name string, s *Sort) *Term {
	c.fresh["$b"]++
	return c.intern(&Term{Op: OBound, Sort: s, Name: fmt.Sprintf("%s?%d", name, c.fresh["$b"])})
}
func (c *Ctx) App(name string, ret *Sort, args ...*Term) *Term {
	if _, ok := c.Funs[name]; !ok {
		d := &FunDecl{Name: name, Ret: ret}
		for _, a := range args {
			d.Args = append(d.Args, a.Sort)
			c.noteSort(a.Sort)
		}
		c.noteSort(ret)
		c.Funs[name] = d
	} else {
		d := c.Funs[name]
		if len(d.Args) != len(args) || d.Ret != ret {
			panic("smt: inconsistent use of function " + name)
		}
		for i := range args {
			if d.Args[i] != args[i].Sort {
				panic(fmt.Sprintf("smt: inconsistent arg sort for %s arg %d: %s vs %s", name, i, d.Args[i], args[i].Sort))
			}
		}
	}
	if len(args) == 0 {
		return c.Var(name, ret)
	}
	return c.intern(&Term{Op: OApp, Sort: ret, Name: name, Args: args})
}

func (t *Term) IsConst() bool { return t.Op == OConst }

// HasBound reports whether t mentions a bound variable that is not bound inside t.
func (t *Term) HasBound() bool { return t.hasBound }
func (t *Term) IsTrue() bool  { return t.Op == OConst && t.Sort == Bool && t.Val == 1 }
func (t *Term) IsFalse() bool { return t.Op == OConst && t.Sort == Bool && t.Val == 0 }

// ---------- boolean constructors ----------

func (c *Ctx) Not(a *Term) *Term {
	if a.Sort != Bool {
		panic("Not: non-bool")
	}
	if a.IsConst() {
		return c.BoolC(a.Val == 0)
	}
	if a.Op == ONot {
		return a.Args[0]
	}
	return c.mk(ONot, Bool, a)
}

func (c *Ctx) And(as ...*Term) *Term {
	var out []*Term
	seen := map[*Term]bool{}
	for _, a := range as {
		if a.Sort != Bool {
			panic("And: non-bool")
		}
		if a.IsFalse() {
			return c.False()
		}
		if a.IsTrue() {
			continue
		}
		if a.Op == OAnd {
			for _, b := range a.Args {
				if !seen[b] {
					seen[b] = true
					out = append(out, b)
				}
			}
			continue
		}
		if !seen[a] {
			seen[a] = true
			out = append(out, a)
		}
	}
	for _, a := range out {
		if a.Op == ONot && seen[a.Args[0]] {
			return c.False()
		}
	}
	switch len(out) {
	case 0:
		return c.True()
	case 1:
		return out[0]
	}
	return c.mk(OAnd, Bool, out...)
}

func (c *Ctx) Or(as ...*Term) *Term {
	var out []*Term
	seen := map[*Term]bool{}
	for _, a := range as {
		if a.Sort != Bool {
			panic("Or: non-bool")
		}
		if a.IsTrue() {
			return c.True()
		}
		if a.IsFalse() {
			continue
		}
		if a.Op == OOr {
			for _, b := range a.Args {
				if !seen[b] {
					seen[b] = true
					out = append(out, b)
				}
			}
			continue
		}
		if !seen[a] {
			seen[a] = true
			out = append(out, a)
		}
	}
	for _, a := range out {
		if a.Op == ONot && seen[a.Args[0]] {
			return c.True()
		}
	}
	switch len(out) {
	case 0:
		return c.False()
	case 1:
		return out[0]
	}
	return c.mk(OOr, Bool, out...)
}

func (c *Ctx) Implies(a, b *Term) *Term {
	if a.IsTrue() {
		return b
	}
	if a.IsFalse() || b.IsTrue() {
		return c.True()
	}
	if b.IsFalse() {
		return c.Not(a)
	}
	if a == b {
		return c.True()
	}
	return c.mk(OImplies, Bool, a, b)
}

func (c *Ctx) Eq(a, b *Term) *Term {
	if a.Sort != b.Sort {
		panic(fmt.Sprintf("Eq: sort mismatch %s vs %s (%s, %s)", a.Sort, b.Sort, c.Show(a), c.Show(b)))
	}
	if a == b {
		return c.True()
	}
	if a.IsConst() && b.IsConst() {
		return c.BoolC(a.Val == b.Val)
	}
	if a.Sort == Bool {
		if a.IsTrue() {
			return b
		}
		if b.IsTrue() {
			return a
		}
		if a.IsFalse() {
			return c.Not(b)
		}
		if b.IsFalse() {
			return c.Not(a)
		}
	}
	if a.Sort.K == KBV {
		for _, pr := range [][2]*Term{{a, b}, {b, a}} {
			x, y := pr[0], pr[1]
			if x.Op == OBvSRem && y.IsConst() && y.Val == 0 && x.Args[1].IsConst() {
				d := x.Args[1].Val
				if d != 0 && d&(d-1) == 0 && d > 1 {
					k := bits.TrailingZeros64(d)
					return c.Eq(c.Extract(k-1, 0, x.Args[0]), c.BVC(k, 0))
				}
			}
		}
		// base+const normal form
		ba, ca := c.splitAdd(a)
		bb, cb := c.splitAdd(b)
		if ba == bb {
			return c.BoolC(ca == cb)
		}
		if ba != nil && bb != nil && ca != 0 && cb != 0 && ca == cb {
			return c.Eq(ba, bb)
		}
	}
	// distinct literal strings / distinct named constants are handled by
	// explicit distinctness assertions, not here.
	if a.ID > b.ID {
		a, b = b, a
	}
	return c.mk(OEq, Bool, a, b)
}

func (c *Ctx) Ite(cnd, a, b *Term) *Term {
	if cnd.IsTrue() {
		return a
	}
	if cnd.IsFalse() {
		return b
	}
	if a == b {
		return a
	}
	if a.Sort != b.Sort {
		panic(fmt.Sprintf("Ite: sort mismatch %s vs %s", a.Sort, b.Sort))
	}
	if a.Sort == Bool {
		if a.IsTrue() && b.IsFalse() {
			return cnd
		}
		if a.IsFalse() && b.IsTrue() {
			return c.Not(cnd)
		}
		if a.IsTrue() {
			return c.Or(cnd, b)
		}
		if b.IsFalse() {
			return c.And(cnd, a)
		}
		if a.IsFalse() {
			return c.And(c.Not(cnd), b)
		}
		if b.IsTrue() {
			return c.Or(c.Not(cnd), a)
		}
	}
	if cnd.Op == ONot {
		return c.Ite(cnd.Args[0], b, a)
	}
	if a.Sort == Bool {
		// factor common conjuncts: ite(c, X and R, Y and R) == R and ite(c, X, Y)
		ca, cb := conjuncts(a), conjuncts(b)
		inB := map[*Term]bool{}
		for _, t := range cb {
			inB[t] = true
		}
		var common, ra []*Term
		isCommon := map[*Term]bool{}
		for _, t := range ca {
			if inB[t] {
				common = append(common, t)
				isCommon[t] = true
			} else {
				ra = append(ra, t)
			}
		}
		if len(common) > 0 {
			var rb []*Term
			for _, t := range cb {
				if !isCommon[t] {
					rb = append(rb, t)
				}
			}
			return c.And(append(common, c.Ite(cnd, c.And(ra...), c.And(rb...)))...)
		}
	}
	return c.mk(OIte, a.Sort, cnd, a, b)
}

func conjuncts(t *Term) []*Term {
	if t.Op == OAnd {
		return t.Args
	}
	return []*Term{t}
}

// ---------- bitvector constructors ----------

// splitAdd decomposes t into (base, const) with t == base + const; base may be nil
// when t is a constant.
func (c *Ctx) splitAdd(t *Term) (*Term, uint64) {
	if t.IsConst() {
		return nil, t.Val
	}
	if t.Op == OBvAdd && len(t.Args) == 2 && t.Args[1].IsConst() {
		return t.Args[0], t.Args[1].Val
	}
	return t, 0
}

func sx(w int, v uint64) int64 {
	if w >= 64 {
		return int64(v)
	}
	if v&(1<<uint(w-1)) != 0 {
		return int64(v | ^mask(w))
	}
	return int64(v)
}

func (c *Ctx) checkBV2(op string, a, b *Term) {
	if a.Sort.K != KBV || a.Sort != b.Sort {
		panic(fmt.Sprintf("%s: sort mismatch %s vs %s: %s ; %s", op, a.Sort, b.Sort, c.Show(a), c.Show(b)))
	}
}

func (c *Ctx) Add(a, b *Term) *Term {
	c.checkBV2("add", a, b)
	w := a.Sort.W
	ba, ca := c.splitAdd(a)
	bb, cb := c.splitAdd(b)
	k := (ca + cb) & mask(w)
	var base *Term
	switch {
	case ba == nil && bb == nil:
		return c.BVC(w, k)
	case ba == nil:
		base = bb
	case bb == nil:
		base = ba
	default:
		// x + (0 - x) etc. are left to the solver; keep ordering canonical
		x, y := ba, bb
		if x.ID > y.ID {
			x, y = y, x
		}
		// (x - y) + y  ==> x
		if x.Op == OBvSub && x.Args[1] == y {
			base = x.Args[0]
		} else if y.Op == OBvSub && y.Args[1] == x {
			base = y.Args[0]
		} else {
			base = c.mk(OBvAdd, a.Sort, x, y)
		}
	}
	if k == 0 {
		return base
	}
	return c.mk(OBvAdd, a.Sort, base, c.BVC(w, k))
}

func (c *Ctx) Sub(a, b *Term) *Term {
	c.checkBV2("sub", a, b)
	w := a.Sort.W
	if a == b {
		return c.BVC(w, 0)
	}
	ba, ca := c.splitAdd(a)
	bb, cb := c.splitAdd(b)
	k := (ca - cb) & mask(w)
	if bb == nil {
		if ba == nil {
			return c.BVC(w, k)
		}
		return c.Add(ba, c.BVC(w, k))
	}
	if ba == bb {
		return c.BVC(w, k)
	}
	var base *Term
	if ba == nil {
		base = c.mk(OBvNeg, a.Sort, bb)
	} else if ba.Op == OBvAdd && !ba.Args[1].IsConst() && ba.Args[1] == bb {
		base = ba.Args[0]
	} else if ba.Op == OBvAdd && !ba.Args[1].IsConst() && ba.Args[0] == bb {
		base = ba.Args[1]
	} else {
		base = c.mk(OBvSub, a.Sort, ba, bb)
	}
	if k == 0 {
		return base
	}
	return c.mk(OBvAdd, a.Sort, base, c.BVC(w, k))
}

func (c *Ctx) Neg(a *Term) *Term {
	return c.Sub(c.BVC(a.Sort.W, 0), a)
}

func (c *Ctx) Mul(a, b *Term) *Term {
	c.checkBV2("mul", a, b)
	w := a.Sort.W
	if a.IsConst() && b.IsConst() {
		return c.BVC(w, a.Val*b.Val)
	}
	if a.IsConst() {
		a, b = b, a
	}
	if b.IsConst() {
		if b.Val == 0 {
			return b
		}
		if b.Val == 1 {
			return a
		}
		if b.Val&(b.Val-1) == 0 {
			return c.binop(OBvShl, a, c.BVC(w, uint64(bits.TrailingZeros64(b.Val))))
		}
	}
	return c.mk(OBvMul, a.Sort, a, b)
}

func (c *Ctx) binop(op Op, a, b *Term) *Term {
	c.checkBV2(opNames[op], a, b)
	w := a.Sort.W
	m := mask(w)
	if a.IsConst() && b.IsConst() {
		x, y := a.Val, b.Val
		switch op {
		case OBvUDiv:
			if y == 0 {
				return c.BVC(w, m)
			}
			return c.BVC(w, x/y)
		case OBvURem:
			if y == 0 {
				return a
			}
			return c.BVC(w, x%y)
		case OBvSDiv:
			sxv, syv := sx(w, x), sx(w, y)
			if syv == 0 {
				if sxv < 0 {
					return c.BVC(w, 1)
				}
				return c.BVC(w, m)
			}
			if syv == -1 {
				return c.BVC(w, uint64(-sxv))
			}
			return c.BVC(w, uint64(sxv/syv))
		case OBvSRem:
			sxv, syv := sx(w, x), sx(w, y)
			if syv == 0 {
				return a
			}
			if syv == -1 {
				return c.BVC(w, 0)
			}
			return c.BVC(w, uint64(sxv%syv))
		case OBvAnd:
			return c.BVC(w, x&y)
		case OBvOr:
			return c.BVC(w, x|y)
		case OBvXor:
			return c.BVC(w, x^y)
		case OBvShl:
			if y >= uint64(w) {
				return c.BVC(w, 0)
			}
			return c.BVC(w, x<<y)
		case OBvLshr:
			if y >= uint64(w) {
				return c.BVC(w, 0)
			}
			return c.BVC(w, x>>y)
		case OBvAshr:
			s := sx(w, x)
			if y >= uint64(w) {
				y = uint64(w - 1)
				if w == 64 {
					y = 63
				}
			}
			return c.BVC(w, uint64(s>>y))
		}
	}
	if b.IsConst() && b.Val != 0 && b.Val&(b.Val-1) == 0 && w > 1 {
		k := bits.TrailingZeros64(b.Val)
		switch op {
		case OBvURem:
			if k == 0 {
				return c.BVC(w, 0)
			}
			return c.Zext(w, c.Extract(k-1, 0, a))
		case OBvUDiv:
			if k == 0 {
				return a
			}
			return c.Zext(w, c.Extract(w-1, k, a))
		}
	}
	switch op {
	case OBvAnd:
		if a == b {
			return a
		}
		if a.IsConst() {
			a, b = b, a
		}
		if b.IsConst() {
			if b.Val == 0 {
				return b
			}
			if b.Val == m {
				return a
			}
		}
	case OBvOr:
		if a == b {
			return a
		}
		if a.IsConst() {
			a, b = b, a
		}
		if b.IsConst() {
			if b.Val == 0 {
				return a
			}
			if b.Val == m {
				return b
			}
		}
	case OBvXor:
		if a == b {
			return c.BVC(w, 0)
		}
		if a.IsConst() {
			a, b = b, a
		}
		if b.IsConst() && b.Val == 0 {
			return a
		}
	case OBvShl, OBvLshr, OBvAshr:
		if b.IsConst() && b.Val == 0 {
			return a
		}
		if b.IsConst() && b.Val >= uint64(w) && op != OBvAshr {
			return c.BVC(w, 0)
		}
	}
	if (op == OBvAnd || op == OBvOr || op == OBvXor) && a.ID > b.ID && !b.IsConst() {
		a, b = b, a
	}
	return c.mk(op, a.Sort, a, b)
}

func (c *Ctx) UDiv(a, b *Term) *Term { return c.binop(OBvUDiv, a, b) }
func (c *Ctx) URem(a, b *Term) *Term { return c.binop(OBvURem, a, b) }
func (c *Ctx) SDiv(a, b *Term) *Term { return c.binop(OBvSDiv, a, b) }
func (c *Ctx) SRem(a, b *Term) *Term { return c.binop(OBvSRem, a, b) }
func (c *Ctx) BvAnd(a, b *Term) *Term { return c.binop(OBvAnd, a, b) }
func (c *Ctx) BvOr(a, b *Term) *Term  { return c.binop(OBvOr, a, b) }
func (c *Ctx) BvXor(a, b *Term) *Term { return c.binop(OBvXor, a, b) }
func (c *Ctx) Shl(a, b *Term) *Term   { return c.binop(OBvShl, a, b) }
func (c *Ctx) Lshr(a, b *Term) *Term  { return c.binop(OBvLshr, a, b) }
func (c *Ctx) Ashr(a, b *Term) *Term  { return c.binop(OBvAshr, a, b) }

func (c *Ctx) BvNot(a *Term) *Term {
	if a.IsConst() {
		return c.BVC(a.Sort.W, ^a.Val)
	}
	if a.Op == OBvNot {
		return a.Args[0]
	}
	return c.mk(OBvNot, a.Sort, a)
}

func (c *Ctx) cmp(op Op, a, b *Term) *Term {
	c.checkBV2(opNames[op], a, b)
	w := a.Sort.W
	if a.IsConst() && b.IsConst() {
		switch op {
		case OBvUlt:
			return c.BoolC(a.Val < b.Val)
		case OBvUle:
			return c.BoolC(a.Val <= b.Val)
		case OBvSlt:
			return c.BoolC(sx(w, a.Val) < sx(w, b.Val))
		case OBvSle:
			return c.BoolC(sx(w, a.Val) <= sx(w, b.Val))
		}
	}
	if a == b {
		return c.BoolC(op == OBvUle || op == OBvSle)
	}
	if op == OBvUlt && b.IsConst() && b.Val == 0 {
		return c.False()
	}
	if op == OBvUle && a.IsConst() && a.Val == 0 {
		return c.True()
	}
	return c.mk(op, Bool, a, b)
}

func (c *Ctx) Ult(a, b *Term) *Term { return c.cmp(OBvUlt, a, b) }
func (c *Ctx) Ule(a, b *Term) *Term { return c.cmp(OBvUle, a, b) }
func (c *Ctx) Slt(a, b *Term) *Term { return c.cmp(OBvSlt, a, b) }
func (c *Ctx) Sle(a, b *Term) *Term { return c.cmp(OBvSle, a, b) }

func (c *Ctx) Extract(hi, lo int, a *Term) *Term {
	if a.Sort.K != KBV || hi >= a.Sort.W || lo < 0 || hi < lo {
		panic("extract: bad range")
	}
	if lo == 0 && hi == a.Sort.W-1 {
		return a
	}
	w := hi - lo + 1
	if a.IsConst() {
		return c.BVC(w, a.Val>>uint(lo))
	}
	if (a.Op == OZext || a.Op == OSext) && hi < a.Args[0].Sort.W {
		return c.Extract(hi, lo, a.Args[0])
	}
	if a.Op == OZext && lo >= a.Args[0].Sort.W {
		return c.BVC(w, 0)
	}
	if a.Op == OExtract {
		l0 := int(a.Val & 0xff)
		return c.Extract(hi+l0, lo+l0, a.Args[0])
	}
	return c.intern(&Term{Op: OExtract, Sort: BV(w), Args: []*Term{a}, Val: uint64(hi)<<8 | uint64(lo)})
}

func (c *Ctx) Zext(w int, a *Term) *Term {
	if a.Sort.W == w {
		return a
	}
	if a.Sort.W > w {
		panic("zext: narrowing")
	}
	if a.IsConst() {
		return c.BVC(w, a.Val)
	}
	if a.Op == OZext {
		return c.Zext(w, a.Args[0])
	}
	return c.intern(&Term{Op: OZext, Sort: BV(w), Args: []*Term{a}})
}

func (c *Ctx) Sext(w int, a *Term) *Term {
	if a.Sort.W == w {
		return a
	}
	if a.Sort.W > w {
		panic("sext: narrowing")
	}
	if a.IsConst() {
		return c.BVC(w, uint64(sx(a.Sort.W, a.Val)))
	}
	if a.Op == OZext {
		return c.Zext(w, a.Args[0])
	}
	return c.intern(&Term{Op: OSext, Sort: BV(w), Args: []*Term{a}})
}

func (c *Ctx) Concat(a, b *Term) *Term {
	w := a.Sort.W + b.Sort.W
	if a.IsConst() && b.IsConst() && w <= 64 {
		return c.BVC(w, a.Val<<uint(b.Sort.W)|b.Val)
	}
	return c.mk(OConcat, BV(w), a, b)
}

// SplitAdd exposes the base+constant decomposition (base nil for constants).
func (c *Ctx) SplitAdd(t *Term) (*Term, uint64) { return c.splitAdd(t) }

// ---------- arrays ----------

// Distinct decides syntactically whether two index terms are certainly different.
func (c *Ctx) Distinct(a, b *Term) bool {
	if a == b {
		return false
	}
	if a.Sort.K == KBV {
		ba, ca := c.splitAdd(a)
		bb, cb := c.splitAdd(b)
		if ba == bb && ca != cb {
			return true
		}
	}
	if c.DistinctHook != nil && c.DistinctHook(a, b) {
		return true
	}
	return false
}

func (c *Ctx) Select(a, i *Term) *Term {
	if a.Sort.K != KArr || a.Sort.Idx != i.Sort {
		panic(fmt.Sprintf("select: sort mismatch %s [%s]", a.Sort, i.Sort))
	}
	for a.Op == OStore {
		if a.Args[1] == i {
			return a.Args[2]
		}
		if c.Distinct(a.Args[1], i) {
			a = a.Args[0]
			continue
		}
		break
	}
	if a.Op == OIte {
		// push select through ite of arrays when both branches resolve
		return c.Ite(a.Args[0], c.Select(a.Args[1], i), c.Select(a.Args[2], i))
	}
	return c.mk(OSelect, a.Sort.Elem, a, i)
}

func (c *Ctx) Store(a, i, v *Term) *Term {
	if a.Sort.K != KArr || a.Sort.Idx != i.Sort || a.Sort.Elem != v.Sort {
		panic(fmt.Sprintf("store: sort mismatch %s [%s] := %s", a.Sort, i.Sort, v.Sort))
	}
	if a.Op == OStore && a.Args[1] == i {
		a = a.Args[0]
	}
	if v.Op == OSelect && v.Args[0] == a && v.Args[1] == i {
		return a
	}
	return c.mk(OStore, a.Sort, a, i, v)
}

func (c *Ctx) Forall(vars []*Term, body *Term) *Term {
	if body.IsTrue() {
		return body
	}
	if len(vars) == 0 {
		return body
	}
	return c.intern(&Term{Op: OForall, Sort: Bool, Args: []*Term{body}, BVars: vars})
}

func (c *Ctx) Exists(vars []*Term, body *Term) *Term {
	if body.IsFalse() {
		return body
	}
	if len(vars) == 0 {
		return body
	}
	return c.intern(&Term{Op: OExists, Sort: Bool, Args: []*Term{body}, BVars: vars})
}

// ---------- substitution ----------

func (c *Ctx) Subst(t *Term, m map[*Term]*Term) *Term {
	cache := map[*Term]*Term{}
	var rec func(t *Term) *Term
	rec = func(t *Term) *Term {
		if r, ok := m[t]; ok {
			return r
		}
		if len(t.Args) == 0 {
			return t
		}
		if r, ok := cache[t]; ok {
			return r
		}
		args := make([]*Term, len(t.Args))
		ch := false
		for i, a := range t.Args {
			args[i] = rec(a)
			if args[i] != a {
				ch = true
			}
		}
		r := t
		if ch {
			r = c.Rebuild(t, args)
		}
		cache[t] = r
		return r
	}
	return rec(t)
}

// Substituter applies one substitution to many terms with a shared cache.
type Substituter struct {
	c     *Ctx
	m     map[*Term]*Term
	cache map[*Term]*Term
}

func (c *Ctx) NewSubst(m map[*Term]*Term) *Substituter {
	return &Substituter{c: c, m: m, cache: map[*Term]*Term{}}
}

func (s *Substituter) Apply(t *Term) *Term {
	if r, ok := s.m[t]; ok {
		return r
	}
	if len(t.Args) == 0 {
		return t
	}
	if r, ok := s.cache[t]; ok {
		return r
	}
	args := make([]*Term, len(t.Args))
	ch := false
	for i, a := range t.Args {
		args[i] = s.Apply(a)
		if args[i] != a {
			ch = true
		}
	}
	r := t
	if ch {
		r = s.c.Rebuild(t, args)
	}
	s.cache[t] = r
	return r
}

// Rebuild re-applies the smart constructor of t.Op to new args.
func (c *Ctx) Rebuild(t *Term, a []*Term) *Term {
	switch t.Op {
	case OApp:
		return c.App(t.Name, t.Sort, a...)
	case ONot:
		return c.Not(a[0])
	case OAnd:
		return c.And(a...)
	case OOr:
		return c.Or(a...)
	case OImplies:
		return c.Implies(a[0], a[1])
	case OEq:
		return c.Eq(a[0], a[1])
	case OIte:
		return c.Ite(a[0], a[1], a[2])
	case OBvAdd:
		return c.Add(a[0], a[1])
	case OBvSub:
		return c.Sub(a[0], a[1])
	case OBvMul:
		return c.Mul(a[0], a[1])
	case OBvUDiv, OBvURem, OBvSDiv, OBvSRem, OBvAnd, OBvOr, OBvXor, OBvShl, OBvLshr, OBvAshr:
		return c.binop(t.Op, a[0], a[1])
	case OBvNot:
		return c.BvNot(a[0])
	case OBvNeg:
		return c.Neg(a[0])
	case OBvUlt, OBvUle, OBvSlt, OBvSle:
		return c.cmp(t.Op, a[0], a[1])
	case OConcat:
		return c.Concat(a[0], a[1])
	case OExtract:
		return c.Extract(int(t.Val>>8), int(t.Val&0xff), a[0])
	case OZext:
		return c.Zext(t.Sort.W, a[0])
	case OSext:
		return c.Sext(t.Sort.W, a[0])
	case OSelect:
		return c.Select(a[0], a[1])
	case OStore:
		return c.Store(a[0], a[1], a[2])
	case OForall:
		return c.Forall(t.BVars, a[0])
	case OExists:
		return c.Exists(t.BVars, a[0])
	}
	panic(fmt.Sprintf("Rebuild: op %d", t.Op))
}

// ---------- printing ----------

func symName(s string) string {
	ok := true
	for _, r := range s {
		if !(r >= 'a' && r <= 'z' || r >= 'A' && r <= 'Z' || r >= '0' && r <= '9' || strings.ContainsRune("_.!$?-", r)) {
			ok = false
		}
	}
	if ok && s != "" && !(s[0] >= '0' && s[0] <= '9') {
		return s
	}
	return "|" + strings.ReplaceAll(strings.ReplaceAll(s, "|", "!"), "\\", "!") + "|"
}

func (c *Ctx) constStr(t *Term) string {
	if t.Sort == Bool {
		if t.Val == 1 {
			return "true"
		}
		return "false"
	}
	w := t.Sort.W
	if w%4 == 0 {
		return fmt.Sprintf("#x%0*x", w/4, t.Val)
	}
	return fmt.Sprintf("#b%0*b", w, t.Val)
}

// Show renders a term inline (for diagnostics), truncated.
func (c *Ctx) Show(t *Term) string {
	var sb strings.Builder
	c.write(&sb, t, nil, 0)
	s := sb.String()
	if len(s) > 400 {
		s = s[:400] + "…"
	}
	return s
}

func (c *Ctx) write(sb *strings.Builder, t *Term, names map[*Term]string, depth int) {
	if names != nil {
		if n, ok := names[t]; ok {
			sb.WriteString(n)
			return
		}
	}
	switch t.Op {
	case OConst:
		sb.WriteString(c.constStr(t))
	case OVar, OBound:
		sb.WriteString(symName(t.Name))
	case OApp:
		sb.WriteString("(" + symName(t.Name))
		for _, a := range t.Args {
			sb.WriteByte(' ')
			c.write(sb, a, names, depth+1)
		}
		sb.WriteByte(')')
	case OExtract:
		fmt.Fprintf(sb, "((_ extract %d %d) ", t.Val>>8, t.Val&0xff)
		c.write(sb, t.Args[0], names, depth+1)
		sb.WriteByte(')')
	case OZext, OSext:
		n := "zero_extend"
		if t.Op == OSext {
			n = "sign_extend"
		}
		fmt.Fprintf(sb, "((_ %s %d) ", n, t.Sort.W-t.Args[0].Sort.W)
		c.write(sb, t.Args[0], names, depth+1)
		sb.WriteByte(')')
	case OForall, OExists:
		if t.Op == OForall {
			sb.WriteString("(forall (")
		} else {
			sb.WriteString("(exists (")
		}
		for _, v := range t.BVars {
			fmt.Fprintf(sb, "(%s %s)", symName(v.Name), v.Sort)
		}
		sb.WriteString(") ")
		c.write(sb, t.Args[0], names, depth+1)
		sb.WriteByte(')')
	case OBvAdd, OBvMul, OBvAnd, OBvOr, OBvXor, OAnd, OOr:
		sb.WriteString("(" + opNames[t.Op])
		for _, a := range t.Args {
			sb.WriteByte(' ')
			c.write(sb, a, names, depth+1)
		}
		sb.WriteByte(')')
	default:
		n, ok := opNames[t.Op]
		if !ok {
			panic(fmt.Sprintf("print: op %d", t.Op))
		}
		sb.WriteString("(" + n)
		for _, a := range t.Args {
			sb.WriteByte(' ')
			c.write(sb, a, names, depth+1)
		}
		sb.WriteByte(')')
	}
}

// Script renders a check-sat query: declarations, shared sub-terms as define-funs,
// the assertions, and (check-sat). If values is non-nil, (get-value) is requested for them.
func (c *Ctx) Script(logic string, asserts []*Term, values []*Term, produceModels bool) string {
	var sb strings.Builder
	if produceModels {
		sb.WriteString("(set-option :produce-models true)\n")
	}
	if logic != "" {
		sb.WriteString("(set-logic " + logic + ")\n")
	}
	// collect reachable terms, refcounts
	ref := map[*Term]int{}
	var order []*Term
	var visit func(t *Term)
	visit = func(t *Term) {
		ref[t]++
		if ref[t] > 1 {
			return
		}
		for _, a := range t.Args {
			visit(a)
		}
		order = append(order, t)
	}
	for _, a := range asserts {
		visit(a)
	}
	for _, v := range values {
		visit(v)
	}
	usorts := map[string]bool{}
	vars := map[string]*Term{}
	funs := map[string]bool{}
	var noteSort func(s *Sort)
	noteSort = func(s *Sort) {
		switch s.K {
		case KUSort:
			usorts[s.Name] = true
		case KArr:
			noteSort(s.Idx)
			noteSort(s.Elem)
		}
	}
	for _, t := range order {
		noteSort(t.Sort)
		switch t.Op {
		case OVar:
			vars[t.Name] = t
		case OApp:
			funs[t.Name] = true
		case OForall, OExists:
			for _, v := range t.BVars {
				noteSort(v.Sort)
			}
		}
	}
	var ks []string
	for k := range usorts {
		ks = append(ks, k)
	}
	sort.Strings(ks)
	for _, k := range ks {
		fmt.Fprintf(&sb, "(declare-sort %s 0)\n", k)
	}
	ks = ks[:0]
	for k := range vars {
		ks = append(ks, k)
	}
	sort.Strings(ks)
	for _, k := range ks {
		fmt.Fprintf(&sb, "(declare-fun %s () %s)\n", symName(k), vars[k].Sort)
	}
	ks = ks[:0]
	for k := range funs {
		ks = append(ks, k)
	}
	sort.Strings(ks)
	for _, k := range ks {
		d := c.Funs[k]
		var as []string
		for _, a := range d.Args {
			as = append(as, a.String())
		}
		fmt.Fprintf(&sb, "(declare-fun %s (%s) %s)\n", symName(k), strings.Join(as, " "), d.Ret)
	}
	names := map[*Term]string{}
	for _, t := range order {
		if ref[t] > 1 && len(t.Args) > 0 && !t.hasBound {
			n := fmt.Sprintf("$t%d", t.ID)
			var e strings.Builder
			c.write(&e, t, names, 0)
			fmt.Fprintf(&sb, "(define-fun %s () %s %s)\n", n, t.Sort, e.String())
			names[t] = n
		}
	}
	for _, a := range asserts {
		var e strings.Builder
		c.write(&e, a, names, 0)
		fmt.Fprintf(&sb, "(assert %s)\n", e.String())
	}
	sb.WriteString("(check-sat)\n")
	if len(values) > 0 {
		sb.WriteString("(get-value (")
		for _, v := range values {
			var e strings.Builder
			c.write(&e, v, names, 0)
			sb.WriteString(e.String() + " ")
		}
		sb.WriteString("))\n")
	}
	return sb.String()
}

// FreeVars returns the free constant symbols of the given terms.
func FreeVars(ts ...*Term) []*Term {
	seen := map[*Term]bool{}
	var out []*Term
	var rec func(t *Term)
	rec = func(t *Term) {
		if seen[t] {
			return
		}
		seen[t] = true
		if t.Op == OVar {
			out = append(out, t)
		}
		for _, a := range t.Args {
			rec(a)
		}
	}
	for _, t := range ts {
		rec(t)
	}
	sort.Slice(out, func(i, j int) bool { return out[i].Name < out[j].Name })
	return out
}

// Size returns the DAG size of the terms.
func Size(ts ...*Term) int {
	seen := map[*Term]bool{}
	var rec func(t *Term)
	rec = func(t *Term) {
		if seen[t] {
			return
		}
		seen[t] = true
		for _, a := range t.Args {
			rec(a)
		}
	}
	for _, t := range ts {
		rec(t)
	}
	return len(seen)
}

var _ = bits.Len

// AlphaEq reports whether a and b are equal up to renaming of bound variables.
func AlphaEq(a, b *Term) bool {
	type pair struct{ a, b *Term }
	memo := map[pair]bool{}
	var rec func(a, b *Term, m map[*Term]*Term) bool
	rec = func(a, b *Term, m map[*Term]*Term) bool {
		if a == b && !a.hasBound {
			return true
		}
		if a.Op != b.Op || a.Sort != b.Sort || len(a.Args) != len(b.Args) || len(a.BVars) != len(b.BVars) {
			return false
		}
		if len(a.Args) == 0 && len(a.BVars) == 0 {
			if x, ok := m[a]; ok {
				return x == b
			}
			return a == b
		}
		if a.Name != b.Name || a.Val != b.Val {
			return false
		}
		closed := !a.hasBound && !b.hasBound
		if closed {
			if r, ok := memo[pair{a, b}]; ok {
				return r
			}
		}
		m2 := m
		if len(a.BVars) > 0 {
			m2 = map[*Term]*Term{}
			for k, v := range m {
				m2[k] = v
			}
			for i := range a.BVars {
				if a.BVars[i].Sort != b.BVars[i].Sort {
					return false
				}
				m2[a.BVars[i]] = b.BVars[i]
			}
		}
		ok := true
		for i := range a.Args {
			if !rec(a.Args[i], b.Args[i], m2) {
				ok = false
				break
			}
		}
		if closed {
			memo[pair{a, b}] = ok
		}
		return ok
	}
	return rec(a, b, map[*Term]*Term{})
}
