package main

import (
	"fmt"
	"os"
	"time"

	"golang.org/x/tools/go/packages"
	"golang.org/x/tools/go/ssa"
	"golang.org/x/tools/go/ssa/ssautil"
)

func main() {
	deps := len(os.Args) > 1 && os.Args[1] == "deps"
	t0 := time.Now()
	mode := packages.NeedName | packages.NeedFiles | packages.NeedCompiledGoFiles | packages.NeedImports | packages.NeedTypes | packages.NeedTypesSizes | packages.NeedSyntax | packages.NeedTypesInfo
	if deps {
		mode |= packages.NeedDeps
	}
	cfg := &packages.Config{Mode: mode, Dir: "/repo", BuildFlags: []string{"-tags=verif"}, Env: append(os.Environ(), "GOFLAGS=-mod=mod", "GOPROXY=off", "GOSUMDB=off", "GOTOOLCHAIN=local")}
	pats := []string{"nhooyr.io/websocket", "nhooyr.io/websocket/wsjson", "nhooyr.io/websocket/internal/errd", "nhooyr.io/websocket/internal/util", "nhooyr.io/websocket/internal/xsync", "nhooyr.io/websocket/internal/bpool", "encoding/binary", "math/bits"}
	pkgs, err := packages.Load(cfg, pats...)
	if err != nil {
		panic(err)
	}
	fmt.Println("load", time.Since(t0), len(pkgs))
	for _, p := range pkgs {
		for _, e := range p.Errors {
			fmt.Println("ERR", e)
		}
	}
	t1 := time.Now()
	var prog *ssa.Program
	var spkgs []*ssa.Package
	if deps {
		prog, spkgs = ssautil.AllPackages(pkgs, ssa.NaiveForm|ssa.GlobalDebug)
	} else {
		prog, spkgs = ssautil.Packages(pkgs, ssa.NaiveForm|ssa.GlobalDebug)
	}
	for _, sp := range spkgs {
		if sp != nil {
			sp.Build()
		}
	}
	fmt.Println("ssa", time.Since(t1))
	w := prog.ImportedPackage("nhooyr.io/websocket")
	fn := w.Func("maskGo")
	fmt.Println(fn, len(fn.Blocks))
	// does the call to binary.LittleEndian.Uint64 resolve to a function with blocks?
	for _, b := range fn.Blocks {
		for _, in := range b.Instrs {
			if c, ok := in.(*ssa.Call); ok {
				if sf := c.Call.StaticCallee(); sf != nil {
					fmt.Println("callee", sf, len(sf.Blocks), sf.Pkg != nil)
					return
				}
			}
		}
	}
}
