package main

import (
	"encoding/json"
	"flag"
	"fmt"
	"os"
	"os/exec"
	"path/filepath"
	"regexp"
	"sort"
	"strconv"
	"strings"
	"time"

	"gvc/sym"
)

type Finding struct {
	Property   string `json:"property"`
	Obligation string `json:"obligation"` // stable obligation name
	PathClass  string `json:"path_class,omitempty"`
	What       string `json:"what"`
	Status     string `json:"status"` // "known" | "fixed"
	Commit     string `json:"commit,omitempty"`
}

type Ledger struct {
	Note  string                       `json:"note"`
	Props map[string]map[string]int    `json:"props"` // property -> stable obligation name -> count at pin
	Funcs map[string][]string          `json:"funcs"` // property -> functions under contract
	// property -> function -> number of return sites that no feasible path reaches at the pin
	// (dead error paths); more of them on a later tree means the contract's assumptions or the
	// callee contracts have become contradictory on those paths (vacuity)
	Infeasible map[string]map[string]int `json:"infeasible_return_sites"`
	Feasible   map[string]map[string]int `json:"feasible_return_sites"`
}

var posSuffix = regexp.MustCompile(`@[A-Za-z0-9_./\-]+\.go:\d+`)

// stableName strips source positions so that names survive unrelated edits.
func stableName(n string) string { return posSuffix.ReplaceAllString(n, "@pos") }

func loadJSON(path string, v interface{}) error {
	b, err := os.ReadFile(path)
	if err != nil {
		return err
	}
	return json.Unmarshal(b, v)
}

func propTargets(e *sym.Engine, prop string) []*sym.FnContract {
	var out []*sym.FnContract
	for _, fc := range e.Targets() {
		if sym.HasTag(fc.B.Tags, prop) {
			out = append(out, fc)
			continue
		}
		own := false
		for _, c := range fc.B.Clauses {
			if sym.HasTag(c.Tags, prop) {
				own = true
				break
			}
		}
		// callers of functions whose requires clauses carry the property's tag: the
		// call-site obligations are the property's
		if own || e.CallsTagged(fc, prop) {
			out = append(out, fc)
		}
	}
	return out
}

func cmdCheck(args []string) {
	fs := flag.NewFlagSet("check", flag.ExitOnError)
	prop := fs.String("prop", "", "property id")
	tier := fs.String("tier", "", "quick|thorough")
	repo := fs.String("repo", "/repo", "repository directory")
	verif := fs.String("verif", "/verif", "verif directory")
	jobs := fs.Int("jobs", 6, "parallel queries (each query races three solver processes)")
	outDir := fs.String("out", "", "write evidence/replay below this directory instead of the verif directory (for trials on scratch copies)")
	writeLedger := fs.Bool("write-ledger", false, "record obligation names for this property into ledger.json (unchanged tree only)")
	fs.Parse(args)
	if *tier == "" {
		*tier = os.Getenv("VERIF_TIER")
	}
	if *tier == "" {
		*tier = "quick"
	}
	seed, _ := strconv.Atoi(os.Getenv("VERIF_SEED"))
	if *prop == "" {
		fmt.Fprintln(os.Stderr, "check: --prop required")
		os.Exit(2)
	}
	t0 := time.Now()
	timeout, agree := 30, 1
	if *tier == "thorough" {
		timeout, agree = 120, 2
	}
	outBase := *verif
	if *outDir != "" {
		outBase = *outDir
	}
	replayDir := filepath.Join(outBase, "replay", *prop)
	_ = os.RemoveAll(replayDir)
	_ = os.MkdirAll(replayDir, 0o755)
	evPath := filepath.Join(outBase, "evidence", *prop+".json")
	_ = os.MkdirAll(filepath.Dir(evPath), 0o755)

	var ledger Ledger
	_ = loadJSON(filepath.Join(*verif, "ledger.json"), &ledger)
	var findings []Finding
	_ = loadJSON(filepath.Join(*verif, "known_findings.json"), &findings)

	e := sym.NewEngine(sym.Config{RepoDir: *repo, VerifDir: *verif})
	violations := 0
	violate := func(ob string, replay string, found bool, why string) {
		violations++
		sfx := ""
		if !found {
			sfx = " no-failing-input-found"
		}
		fmt.Printf("VIOLATION property=%s replay=%s obligation=%q %s%s\n", *prop, replay, ob, why, sfx)
	}
	writeReplay := func(name string, doc map[string]interface{}) string {
		nm := strings.NewReplacer("/", "_", " ", "_", "*", "", "(", "", ")", "", ":", "_", "$", "_", "#", "_", "@", "_at_").Replace(name)
		p := filepath.Join(replayDir, nm+".json")
		b, _ := json.MarshalIndent(doc, "", " ")
		_ = os.WriteFile(p, b, 0o644)
		return p
	}

	loadErr := e.Load()
	if loadErr != nil {
		// The repository (or the contracts against it) no longer load: every obligation
		// recorded for this property at the pin is undischarged.
		p := writeReplay("load-error", map[string]interface{}{"property": *prop, "obligation": "load", "error": loadErr.Error()})
		violate("load", p, false, "contracts no longer apply to the tree: "+firstLine(loadErr.Error()))
		writeEvidence(evPath, *prop, *tier, seed, "other", map[string]interface{}{
			"explanation": "the repository could not be loaded with its contracts: " + loadErr.Error(),
			"obligations": 0, "discharged": 0, "checker_cmd": strings.Join(os.Args, " "), "trusted_base": []string{}}, nil, time.Since(t0).Seconds(), violations)
		os.Exit(1)
	}
	targets := propTargets(e, *prop)
	var fnames []string
	for _, fc := range targets {
		fnames = append(fnames, fc.Key)
		e.VerifyFn(fc)
	}
	e.RunCovers(*jobs)
	var obs []*sym.Obligation
	for _, ob := range e.Obligs {
		if sym.HasTag(ob.Tags, *prop) {
			obs = append(obs, ob)
		}
	}
	e.Discharge(obs, sym.DischargeOpts{TimeoutS: timeout, NeedAgree: agree, Jobs: *jobs, Models: true, DumpDir: filepath.Join(replayDir, "smt")})
	// Queries that timed out are run once more, a few at a time and with three times the
	// timeout: on a loaded machine (three solver processes per query, several queries at a
	// time) a query that normally takes seconds can exceed the quick timeout, and an
	// undecided obligation would be reported as a violation although nothing changed.
	{
		var again []*sym.Obligation
		for _, ob := range obs {
			if strings.HasPrefix(ob.Status, "undecided") && ob.Result != nil && strings.Contains(ob.Result.Status+ob.Status, "timeout") {
				again = append(again, ob)
			}
		}
		// (only a handful: many time-outs at once are not load noise, and re-running them all
		// would make a failing check take tens of minutes)
		if len(again) > 0 && len(again) <= 8 {
			fmt.Printf("retrying %d timed-out queries with timeout %ds\n", len(again), 3*timeout)
			e.Discharge(again, sym.DischargeOpts{TimeoutS: 3 * timeout, NeedAgree: agree, Jobs: 3, Models: true, NoBatch: true, DumpDir: filepath.Join(replayDir, "smt")})
		}
	}
	if *tier == "thorough" {
		// in the thorough tier a single-solver answer is accepted only after a second
		// run with a longer timeout failed to produce agreement
		for _, ob := range obs {
			if ob.Result != nil && strings.HasSuffix(ob.Result.Status, "-unconfirmed") {
				if strings.HasPrefix(ob.Result.Status, "unsat") {
					ob.Status = "discharged"
					ob.Result.Status = "unsat"
					ob.Result.Solver += " (single solver)"
				}
			}
		}
	}

	// classification
	known := map[string]*Finding{}
	for i := range findings {
		f := &findings[i]
		if f.Property == *prop && f.Status == "known" {
			known[f.Obligation] = f
		}
	}
	present := map[string]int{}
	discharged := 0
	backends := map[string]int{}
	solverSecs := 0.0
	type slow struct {
		Name string  `json:"name"`
		Secs float64 `json:"seconds"`
	}
	var slows []slow
	var samples []interface{}
	knownHit := map[string]bool{}
	failing := map[string][]*sym.Obligation{}
	var failOrder []string
	for _, ob := range obs {
		sn := stableName(ob.Name)
		present[sn]++
		if ob.Result != nil {
			solverSecs += ob.Result.Seconds
			slows = append(slows, slow{ob.Name, ob.Result.Seconds})
		}
		if ob.Status == "discharged" {
			discharged++
			if ob.Result != nil {
				backends[ob.Result.Solver]++
			}
			if len(samples) < 6 {
				samples = append(samples, map[string]interface{}{"obligation": ob.Name, "kind": ob.Kind, "path": ob.Path, "solver": ob.Result.Solver, "seconds": ob.Result.Seconds})
			}
			continue
		}
		if f := known[sn]; f != nil && (f.PathClass == "" || f.PathClass == pathClass(ob.Path)) {
			if !knownHit[sn] {
				knownHit[sn] = true
				fmt.Printf("KNOWN-FINDING: property=%s %s — %s\n", *prop, sn, f.What)
			}
			continue
		}
		if failing[sn] == nil {
			failOrder = append(failOrder, sn)
		}
		failing[sn] = append(failing[sn], ob)
	}
	// one VIOLATION line per obligation (all failing paths are listed in its replay file);
	// replay is attempted on refuted paths until one is confirmed on the real code
	for _, sn := range failOrder {
		group := failing[sn]
		var docs []map[string]interface{}
		found := false
		attempts := 0
		status := group[0].Status
		for _, ob := range group {
			doc := map[string]interface{}{"property": *prop, "obligation": ob.Name, "stable_name": sn, "kind": ob.Kind, "label": ob.Label,
				"function": ob.Fn, "position": ob.Pos, "path": ob.Path, "status": ob.Status}
			if ob.Result != nil {
				doc["solver"] = ob.Result.Solver
				doc["solver_status"] = ob.Result.Status
				out := ob.Result.Output
				if len(out) > 20000 {
					out = out[:20000]
				}
				doc["solver_output"] = out
				doc["all_solvers"] = ob.Result.All
			}
			if ob.Status == "refuted" {
				status = ob.Status
				if !found && attempts < 4 {
					attempts++
					if replayModel(e, ob, *repo, *verif, replayDir, doc) {
						found = true
						docs = append([]map[string]interface{}{doc}, docs...)
						continue
					}
				}
			}
			if len(docs) < 8 {
				docs = append(docs, doc)
			}
		}
		top := docs[0]
		top["failing_paths"] = len(group)
		if len(docs) > 1 {
			top["other_failing_paths"] = docs[1:]
		}
		p := writeReplay(group[0].Name, top)
		violate(group[0].Name, p, found, fmt.Sprintf("status=%s paths=%d", status, len(group)))
	}
	// tool errors: functions whose obligations could not be generated
	for _, er := range e.Errors {
		p := writeReplay("tool-error-"+firstWord(er), map[string]interface{}{"property": *prop, "obligation": "generation:" + firstWord(er), "error": er})
		violate("generation:"+firstWord(er), p, false, "obligations could not be generated: "+firstLine(er))
	}
	// vacuity / ledger
	if lp := ledger.Props[*prop]; lp != nil && !*writeLedger {
		var missing []string
		for n := range lp {
			// only obligations that belong to a contract clause (ensures, loop invariants,
			// decreases, lemmas) are expected to persist; call-site, safety and frame
			// obligations legitimately come and go with harmless refactorings
			if strings.Contains(n, "/requires-at-call/") || strings.Contains(n, "/safety:") || strings.Contains(n, "/frame/") {
				continue
			}
			if present[n] == 0 {
				missing = append(missing, n)
			}
		}
		sort.Strings(missing)
		for _, n := range missing {
			// an obligation that existed (and was discharged) at the pin is gone
			skip := false
			for _, er := range e.Errors {
				if strings.HasPrefix(n, firstWord(er)+"/") {
					skip = true // already reported through the tool error
				}
			}
			if skip {
				continue
			}
			p := writeReplay("missing-"+n, map[string]interface{}{"property": *prop, "obligation": n, "error": "obligation recorded at the pin is no longer generated"})
			violate(n, p, false, "obligation recorded at the pin is no longer generated")
		}
	}
	infeasible := map[string]int{}
	for _, s := range e.InfeasibleSites {
		if i := strings.Index(s, "/cover/"); i > 0 {
			infeasible[s[:i]]++
		}
	}
	// reachable return sites per function (distinct cover points minus the unreachable ones)
	feasible := map[string]int{}
	seenSite := map[string]bool{}
	for _, cv := range e.Covers {
		if i := strings.Index(cv.Name, "/cover/return-after"); i > 0 && !seenSite[cv.Name] {
			seenSite[cv.Name] = true
			feasible[cv.Name[:i]]++
		}
	}
	for fn, n := range infeasible {
		feasible[fn] -= n
	}
	// a function none of whose return sites is reachable under its contract's assumptions is
	// verified vacuously, whatever the ledger says
	{
		var fns []string
		for fn := range infeasible {
			fns = append(fns, fn)
		}
		sort.Strings(fns)
		for _, fn := range fns {
			if feasible[fn] <= 0 {
				p := writeReplay("vacuous-"+fn, map[string]interface{}{"property": *prop, "obligation": fn + "/cover/return-sites", "error": "no return site of " + fn + " is reachable under the assumptions of its contract and of the contracts it uses: every obligation holds vacuously", "sites": e.InfeasibleSites})
				violate(fn+"/cover/return-sites", p, false, "no return site is reachable under the contracts (vacuity)")
			}
		}
	}
	if li := ledger.Infeasible[*prop]; li != nil && !*writeLedger {
		var fns []string
		for fn := range infeasible {
			fns = append(fns, fn)
		}
		sort.Strings(fns)
		for _, fn := range fns {
			// alarm only if return sites moved from reachable to unreachable: new dead branches
			// (defensive checks) or merged returns alone are harmless
			if infeasible[fn] > li[fn] && feasible[fn] < ledger.Feasible[*prop][fn] {
				p := writeReplay("vacuity-"+fn, map[string]interface{}{"property": *prop, "obligation": fn + "/cover/return-sites", "error": fmt.Sprintf("%d return sites of %s are unreachable under the contract's assumptions (at the pin: %d); obligations on those paths hold vacuously", infeasible[fn], fn, li[fn]), "sites": e.InfeasibleSites})
				violate(fn+"/cover/return-sites", p, false, "return sites became unreachable under the contracts (vacuity)")
			}
		}
	}
	if len(obs) == 0 && len(e.Errors) == 0 {
		fmt.Fprintf(os.Stderr, "check: no obligations for property %s (vacuous)\n", *prop)
		os.Exit(2)
	}
	if *writeLedger {
		if ledger.Props == nil {
			ledger.Props = map[string]map[string]int{}
			ledger.Funcs = map[string][]string{}
		}
		ledger.Note = "obligation names (positions stripped) generated on the pinned tree, per property; written by `gvc check --write-ledger`"
		ledger.Props[*prop] = present
		ledger.Funcs[*prop] = fnames
		if ledger.Infeasible == nil {
			ledger.Infeasible = map[string]map[string]int{}
		}
		ledger.Infeasible[*prop] = infeasible
		if ledger.Feasible == nil {
			ledger.Feasible = map[string]map[string]int{}
		}
		ledger.Feasible[*prop] = feasible
		b, _ := json.MarshalIndent(ledger, "", " ")
		_ = os.WriteFile(filepath.Join(*verif, "ledger.json"), b, 0o644)
	}
	// bounded stand-ins for assumed repository functions (labelled bounded, never proved)
	var bounded []map[string]interface{}
	for _, name := range boundedDrivers[*prop] {
		cases := 2000
		if *tier == "thorough" {
			cases = 200000
		}
		n, obs, raw := runBounded(name, *repo, *verif, replayDir, seed, cases)
		kind := "bounded differential check against an independent reference (not a proof)"
		if name == "stdlibAssumptions" {
			kind = "bounded conformance test of assumed library contracts: the real library functions are run on sampled inputs and the assumed postconditions must hold (testing of assumptions, not a proof)"
		}
		rec := map[string]interface{}{"function": name, "kind": kind, "cases": n, "seed": seed}
		switch {
		case obs != "":
			rec["result"] = "disagreement"
			p := writeReplay("bounded-"+name, map[string]interface{}{"property": *prop, "obligation": "bounded:" + name, "observed": obs, "driver": filepath.Join(*verif, "replaydrv", "bounded_"+name+".go.txt"), "output": raw})
			violate("bounded:"+name, p, true, "the real function disagrees with the reference: "+firstLine(obs))
		case n == 0:
			rec["result"] = "could not run"
			p := writeReplay("bounded-"+name, map[string]interface{}{"property": *prop, "obligation": "bounded:" + name, "error": "the bounded driver did not run to completion", "output": raw})
			violate("bounded:"+name, p, false, "the bounded stand-in for an assumed contract could not be run")
		default:
			rec["result"] = "agreed on all cases"
		}
		bounded = append(bounded, rec)
	}
	sort.Slice(slows, func(i, j int) bool { return slows[i].Secs > slows[j].Secs })
	if len(slows) > 5 {
		slows = slows[:5]
	}
	level := "proof"
	// the level recorded is the one claimed for this property in MANIFEST.json ("other" for
	// properties of which only necessary conditions / lemmas are proved)
	var man struct {
		Checks []struct {
			PropertyID   string `json:"property_id"`
			LevelClaimed struct {
				Category string `json:"category"`
			} `json:"level_claimed"`
		} `json:"checks"`
	}
	if loadJSON(filepath.Join(*verif, "MANIFEST.json"), &man) == nil {
		for _, c := range man.Checks {
			if c.PropertyID == *prop && c.LevelClaimed.Category != "" {
				level = c.LevelClaimed.Category
			}
		}
	}
	if len(knownHit) > 0 || violations > 0 {
		level = "other"
	}
	assumed, trusted := e.TrustedBase(targets)
	cov := map[string]interface{}{
		"obligations": len(obs), "discharged": discharged,
		"checker_cmd": "gvc check --prop " + *prop + " --tier " + *tier + "  (z3 4.8.12 / z3 5.1.0 / cvc5 1.0.3 raced per query; timeout " + strconv.Itoa(timeout) + "s; agreement " + strconv.Itoa(agree) + ")",
		"trusted_base": trusted,
		"functions_under_contract": fnames,
		"assumed_contracts_used": assumed,
		"discharged_by_backend": backends,
		"solver_seconds_total": round2(solverSecs),
		"slowest_obligations": slows,
		"samples": samples,
		"known_findings_hit": keys(knownHit),
		"tool_errors": e.Errors,
		"bounded_stand_ins": bounded,
		"engine_stats": e.Stats,
		"explanation": "Obligations are generated by symbolic execution of go/ssa (naive form) of /repo's current working tree against the //@ contracts in contracts_verif.go; each is decided by an SMT query (bitvector-exact integers). 'discharged' counts obligations whose every sub-query was answered unsat. Clause instances that the engine's own simplifier reduces to true on a path (typical for call-trace clauses, whose facts are concrete per path) are not queries; their number is engine_stats.obligations-trivial + obligations-by-literals + obligations-known.",
	}
	writeEvidence(evPath, *prop, *tier, seed, level, cov, sym.GlobalAssumptions, time.Since(t0).Seconds(), violations)
	fmt.Printf("property %s: %d obligations, %d discharged, %d known findings, %d violations, %.1fs\n", *prop, len(obs), discharged, len(knownHit), violations, time.Since(t0).Seconds())
	if violations > 0 {
		os.Exit(1)
	}
}

func keys(m map[string]bool) []string {
	out := []string{}
	for k := range m {
		out = append(out, k)
	}
	sort.Strings(out)
	return out
}

func round2(f float64) float64 { return float64(int(f*100)) / 100 }

func firstLine(s string) string {
	if i := strings.Index(s, "\n"); i >= 0 {
		s = s[:i]
	}
	if len(s) > 300 {
		s = s[:300]
	}
	return s
}

func firstWord(s string) string {
	if i := strings.Index(s, ": "); i >= 0 {
		return s[:i]
	}
	return firstLine(s)
}

func pathClass(p []string) string {
	// branch outcomes without line numbers
	var out []string
	for _, s := range p {
		if i := strings.LastIndex(s, ":"); i >= 0 && (strings.HasSuffix(s, ":T") || strings.HasSuffix(s, ":F")) {
			out = append(out, s[i+1:])
		} else {
			out = append(out, s)
		}
	}
	return strings.Join(out, "")
}

func writeEvidence(path, prop, tier string, seed int, level string, cov map[string]interface{}, assumptions []string, wall float64, violations int) {
	doc := map[string]interface{}{
		"property_id": prop, "tier": tier, "seed": seed, "level": level, "coverage": cov,
		"assumptions": assumptions, "wall_s": round2(wall), "violations": violations,
	}
	if assumptions == nil {
		doc["assumptions"] = []string{}
	}
	b, _ := json.MarshalIndent(doc, "", " ")
	_ = os.WriteFile(path, b, 0o644)
}

// replayDrivers: functions for which a replay driver exists (value-level functions whose
// inputs are fully described by the model's parameter values).
var replayDrivers = map[string]string{
	"maskGo": "maskGo", "writeFrameHeader": "writeFrameHeader", "readFrameHeader": "readFrameHeader",
	"validWireCloseCode": "validWireCloseCode", "(CloseError).bytesErr": "bytesErr",
	"parseClosePayload": "parseClosePayload", "(*Conn).SetReadLimit": "SetReadLimit",
	"(*Conn).readLoop": "readLoop", "(*Conn).handleControl": "handleControl", "(*msgReader).Read": "msgReaderRead", "(*Conn).writeFrame": "writeFrame",
}

// boundedDrivers: bounded stand-ins (never counted as proved) for repository functions whose
// contracts are assumed because the verifier cannot reach them. Each is a Go test injected
// with go test -overlay that compares the real function with an independent reference on a
// stated number of cases.
var boundedDrivers = map[string][]string{
	"C11": {"secWebSocketAccept", "headerTokens"},
	"C13": {"secWebSocketAccept", "headerTokens"},
	"C14": {"headerTokens"},
	// conformance test of assumed library contracts (encoding/json, bytes.Buffer, io.ReadAll,
	// io.ReadFull, compress/flate error behaviour, bufio.Writer, strconv.Itoa): testing of
	// assumptions, not proof
	"C04": {"stdlibAssumptions"},
	"C08": {"stdlibAssumptions"},
	"C18": {"stdlibAssumptions"},
	"C19": {"stdlibAssumptions"},
}

// runBounded runs one bounded driver; it returns the number of cases, the observation if the
// real code disagreed with the reference, and the raw output.
func runBounded(name, repo, verif, replayDir string, seed int, cases int) (int, string, string) {
	absRepo, _ := filepath.Abs(repo)
	ov := map[string]interface{}{"Replace": map[string]string{
		filepath.Join(absRepo, "zz_gvcbounded_test.go"): filepath.Join(verif, "replaydrv", "bounded_"+name+".go.txt"),
	}}
	ovPath := filepath.Join(replayDir, "bounded_"+name+".overlay.json")
	b, _ := json.Marshal(ov)
	_ = os.WriteFile(ovPath, b, 0o644)
	cmd := exec.Command("go", "test", "-v", "-overlay", ovPath, "-vet=off", "-count=1", "-timeout", "120s", "-run", "^TestGvcBounded$", ".")
	cmd.Dir = absRepo
	cmd.Env = append(os.Environ(), "GOFLAGS=-mod=mod", "GOPROXY=off", "GOSUMDB=off", "GOTOOLCHAIN=local",
		"VERIF_SEED="+strconv.Itoa(seed), "GVC_BOUNDED_CASES="+strconv.Itoa(cases))
	out, _ := cmd.CombinedOutput()
	n := 0
	obs := ""
	for _, ln := range strings.Split(string(out), "\n") {
		if strings.HasPrefix(ln, "BOUNDED-OK cases=") {
			n, _ = strconv.Atoi(strings.TrimPrefix(ln, "BOUNDED-OK cases="))
		}
		if strings.HasPrefix(ln, "REPLAY-CONFIRMED:") {
			obs = strings.TrimSpace(strings.TrimPrefix(ln, "REPLAY-CONFIRMED:"))
		}
	}
	return n, obs, string(out)
}

var modelPair = regexp.MustCompile(`\(([^\s()]+) (#x[0-9a-fA-F]+|#b[01]+|true|false|\(_ bv\d+ \d+\))\)`)

func parseModel(out string) map[string]string {
	vals := map[string]string{}
	for _, m := range modelPair.FindAllStringSubmatch(out, -1) {
		v := m[2]
		switch {
		case strings.HasPrefix(v, "#x"):
			if u, err := strconv.ParseUint(v[2:], 16, 64); err == nil {
				v = strconv.FormatUint(u, 10)
			}
		case strings.HasPrefix(v, "#b"):
			if u, err := strconv.ParseUint(v[2:], 2, 64); err == nil {
				v = strconv.FormatUint(u, 10)
			}
		case strings.HasPrefix(v, "(_ bv"):
			v = strings.Fields(v[5:])[0]
		}
		vals[m[1]] = v
	}
	return vals
}

// replayModel: counterexample replay on the real code (value-level functions).
// The model's values for the function's parameters (in$...) and declared replay inputs
// (gvcin$..., from //@ input directives) are handed to a driver test that is injected into
// the package with go test -overlay, calls the real function and compares with an oracle
// written from the RFC. Returns true only if that execution shows the violation.
func replayModel(e *sym.Engine, ob *sym.Obligation, repo, verif, replayDir string, doc map[string]interface{}) bool {
	drv := replayDrivers[ob.Fn]
	if drv == "" {
		doc["replay"] = "not attempted: no replay driver for " + ob.Fn + " (drivers exist for value-level functions only)"
		return false
	}
	if ob.Result == nil {
		return false
	}
	vals := parseModel(ob.Result.Output)
	inputs := map[string]string{}
	for k, v := range vals {
		if strings.HasPrefix(k, "in$") || strings.HasPrefix(k, "gvcin$") || strings.HasPrefix(k, "gvcrd") {
			inputs[k] = v
		}
	}
	if len(inputs) == 0 {
		doc["replay"] = "not attempted: the solver's model binds none of the function's inputs"
		return false
	}
	nm := strings.NewReplacer("/", "_", " ", "_", "*", "", "(", "", ")", "", ":", "_", "$", "_", "#", "_", "@", "_at_").Replace(ob.Name) + fmt.Sprintf(".%d", ob.Ord)
	inPath := filepath.Join(replayDir, nm+".input.json")
	b, _ := json.MarshalIndent(map[string]interface{}{"fn": ob.Fn, "obligation": ob.Name, "values": inputs}, "", " ")
	_ = os.WriteFile(inPath, b, 0o644)
	absRepo, _ := filepath.Abs(repo)
	ov := map[string]interface{}{"Replace": map[string]string{
		filepath.Join(absRepo, "zz_gvcreplay_common_test.go"): filepath.Join(verif, "replaydrv", "common.go.txt"),
		filepath.Join(absRepo, "zz_gvcreplay_test.go"):        filepath.Join(verif, "replaydrv", drv+".go.txt"),
	}}
	ovPath := filepath.Join(replayDir, nm+".overlay.json")
	b, _ = json.Marshal(ov)
	_ = os.WriteFile(ovPath, b, 0o644)
	args := []string{"test", "-overlay", ovPath, "-vet=off", "-count=1", "-timeout", "30s", "-run", "^TestGvcReplay$", "."}
	cmd := exec.Command("go", args...)
	cmd.Dir = absRepo
	cmd.Env = append(os.Environ(), "GOFLAGS=-mod=mod", "GOPROXY=off", "GOSUMDB=off", "GOTOOLCHAIN=local", "GVC_REPLAY_INPUT="+inPath)
	out, _ := cmd.CombinedOutput()
	rp := map[string]interface{}{
		"driver": filepath.Join(verif, "replaydrv", drv+".go.txt"), "input_file": inPath, "inputs": inputs,
		"command": "cd " + absRepo + " && GVC_REPLAY_INPUT=" + inPath + " go " + strings.Join(args, " "),
	}
	doc["replay"] = rp
	for _, ln := range strings.Split(string(out), "\n") {
		if strings.HasPrefix(ln, "REPLAY-CONFIRMED:") {
			rp["result"] = "confirmed on the real code"
			rp["observed"] = strings.TrimSpace(strings.TrimPrefix(ln, "REPLAY-CONFIRMED:"))
			return true
		}
	}
	tail := string(out)
	if len(tail) > 1500 {
		tail = tail[len(tail)-1500:]
	}
	rp["result"] = "the model's input did not reproduce a violation on the real code (the failed obligation stands; the model may be an artefact of an abstraction)"
	rp["output"] = tail
	return false
}
