package main

import (
	"fmt"
	"golang.org/x/tools/go/packages"
	"golang.org/x/tools/go/ssa"
	"golang.org/x/tools/go/ssa/ssautil"
)

var _ = packages.Load
var _ = ssautil.AllPackages
var _ ssa.BuilderMode

func main() { fmt.Println("gvc") }
