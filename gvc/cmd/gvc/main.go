package main

import (
	"flag"
	"fmt"
	"os"
	"runtime/pprof"
	"sort"
	"strings"
	"time"

	"gvc/sym"
)

func main() {
	if len(os.Args) < 2 {
		fmt.Fprintln(os.Stderr, "usage: gvc <verify|check|replay> ...")
		os.Exit(2)
	}
	switch os.Args[1] {
	case "verify":
		cmdVerify(os.Args[2:])
	case "check":
		cmdCheck(os.Args[2:])
	default:
		fmt.Fprintln(os.Stderr, "unknown command", os.Args[1])
		os.Exit(2)
	}
}

// verify: developer command — verify selected functions, print every obligation.
func cmdVerify(args []string) {
	fs := flag.NewFlagSet("verify", flag.ExitOnError)
	fn := fs.String("fn", "", "comma-separated function keys (default: all targets)")
	prop := fs.String("prop", "", "only obligations tagged with this property")
	repo := fs.String("repo", "/repo", "repository directory")
	verif := fs.String("verif", "/verif", "verif directory")
	timeout := fs.Int("timeout", 10, "per-query timeout (s)")
	jobs := fs.Int("jobs", 8, "parallel queries")
	dump := fs.String("dump", "", "directory for failed queries / generated code")
	verbose := fs.Bool("v", false, "verbose")
	prof := fs.String("cpuprofile", "", "write cpu profile")
	nobatch := fs.Bool("nobatch", false, "disable batched discharge")
	fs.Parse(args)
	if *prof != "" {
		f, _ := os.Create(*prof)
		pprof.StartCPUProfile(f)
		defer pprof.StopCPUProfile()
	}
	t0 := time.Now()
	e := sym.NewEngine(sym.Config{RepoDir: *repo, VerifDir: *verif, DumpDir: *dump, Verbose: *verbose})
	if err := e.Load(); err != nil {
		fmt.Fprintln(os.Stderr, "load error:", err)
		os.Exit(2)
	}
	fmt.Printf("loaded in %.1fs\n", time.Since(t0).Seconds())
	want := map[string]bool{}
	for _, f := range strings.Split(*fn, ",") {
		if f != "" {
			want[f] = true
		}
	}
	for _, fc := range e.Targets() {
		if len(want) > 0 && !want[fc.Key] {
			continue
		}
		if *prop != "" && !sym.HasTag(fc.B.Tags, *prop) {
			continue
		}
		t1 := time.Now()
		n0 := len(e.Obligs)
		e.VerifyFn(fc)
		fmt.Printf("  %-40s %4d obligations  %d paths  (%.2fs)\n", fc.Key, len(e.Obligs)-n0, e.Stats["paths:"+fc.Key], time.Since(t1).Seconds())
	}
	e.RunCovers(*jobs)
	if *verbose {
		for _, cv := range e.Covers {
			fmt.Printf("  cover %s: %s\n", cv.Name, cv.Status)
		}
	}
	for _, s := range e.InfeasibleSites {
		fmt.Println("INFEASIBLE-RETURN-SITE:", s)
	}
	for _, er := range e.Errors {
		fmt.Println("TOOL-ERROR:", er)
	}
	t2 := time.Now()
	e.Discharge(e.Obligs, sym.DischargeOpts{TimeoutS: *timeout, Jobs: *jobs, DumpDir: *dump, Models: true, NoBatch: *nobatch})
	fmt.Printf("discharge: %.1fs (script building %.1fs)\n", time.Since(t2).Seconds(), float64(e.Stats["build-scripts-ms"])/1000)
	cnt := map[string]int{}
	for _, ob := range e.Obligs {
		cnt[ob.Status]++
		if ob.Status != "discharged" || *verbose {
			solver := ""
			secs := 0.0
			if ob.Result != nil {
				solver = ob.Result.Solver
				secs = ob.Result.Seconds
			}
			fmt.Printf("  [%s] %s #%d (%s %.2fs) path=%s\n", ob.Status, ob.Name, ob.Ord, solver, secs, strings.Join(ob.Path, ","))
		}
	}
	var ks []string
	for k := range cnt {
		ks = append(ks, k)
	}
	sort.Strings(ks)
	for _, k := range ks {
		fmt.Printf("%s: %d\n", k, cnt[k])
	}
	if *prof != "" {
		pprof.StopCPUProfile()
	}
	if len(e.Errors) > 0 {
		os.Exit(2)
	}
	if cnt["discharged"] != len(e.Obligs) {
		os.Exit(1)
	}
}

