#!/bin/bash
# usage: tools_mut.sh <file> <sed-expr> <gvc verify args...>
# copies /repo to a scratch dir, applies the sed expression to <file>, runs gvc verify there, removes the copy.
set -e
file=$1; expr=$2; shift 2
d=$(mktemp -d /tmp/gvcmut.XXXXXX)
rsync -a --exclude .git /repo/ $d/
sed -i "$expr" $d/$file
if diff -q /repo/$file $d/$file >/dev/null; then echo "MUTATION DID NOT APPLY"; rm -rf $d; exit 3; fi
diff /repo/$file $d/$file | head -6
(cd $d && GOFLAGS=-mod=mod GOPROXY=off GOSUMDB=off go build ./... ) || { echo "MUTANT DOES NOT BUILD"; rm -rf $d; exit 3; }
set +e
/verif/bin/gvc verify --repo $d "$@"
rc=$?
rm -rf $d
exit $rc
