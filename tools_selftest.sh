#!/bin/bash
# Must-fail corpus: applies every seeded change to a scratch copy of /repo and runs the check
# of the property recorded in its meta.json; prints one line per seed and compares with the
# recorded status (detected / detected-coarse / missed). Usage: tools_selftest.sh [jobs] [seed-id ...]
# (no seed ids: the whole corpus, about two hours on 16 cores; with ids: only those)
jobs=${1:-3}
shift
only=" $* "
export GOFLAGS=-mod=mod GOPROXY=off GOSUMDB=off GOTOOLCHAIN=local
run_one() {
  sd=$1
  id=$(basename $sd)
  prop=$(python3 -c "import json;print(json.load(open('$sd/meta.json'))['property'])")
  want=$(python3 -c "import json;print(json.load(open('$sd/meta.json'))['status'])")
  d=$(mktemp -d /tmp/gvcself.XXXXXX)
  rsync -a --exclude .git /repo/ $d/
  if ! (cd $d && patch -p1 -s < $sd/patch.diff >/dev/null 2>&1); then echo "$id $prop PATCH-DOES-NOT-APPLY (want $want)"; rm -rf $d; return; fi
  out=$(/verif/bin/gvc check --prop $prop --repo $d --out $d/.gvcout --jobs 5 2>&1)
  n=$(echo "$out" | grep -c "^VIOLATION")
  conf=$(echo "$out" | grep "^VIOLATION" | grep -vc "no-failing-input-found")
  first=$(echo "$out" | grep "^VIOLATION" | head -1 | sed 's/.*obligation="\([^"]*\)".*/\1/' | cut -c1-90)
  got=missed; [ $n -gt 0 ] && got=detected
  ok=OK
  case "$want" in detected*) [ $got = detected ] || ok=REGRESSION;; missed) [ $got = missed ] || ok=NOW-DETECTED;; esac
  echo "$id $prop got=$got violations=$n replay-confirmed=$conf want=$want $ok first=$first"
  rm -rf $d
}
export -f run_one
ls -d /verif/seeded/*/ | sed 's:/$::' | while read sd; do
  test -f $sd/meta.json && test -f $sd/patch.diff || continue
  if [ "$only" != "  " ]; then case "$only" in *" $(basename $sd) "*) ;; *) continue;; esac; fi
  echo $sd
done | xargs -P $jobs -I{} bash -c 'run_one {}'
