#!/bin/bash
# Regenerates ledger.json (obligation names per property on the unchanged tree) for the listed properties.
cd /verif
for p in "$@"; do
  /usr/bin/time -f "$p: %es" ./bin/gvc check --prop $p --write-ledger --jobs 12 2>&1 | tail -2
done
